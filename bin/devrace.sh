#!/bin/bash
# dev helper for the go1.26.8 -race binary: devrace.sh <TestRegex> <checks> <seed>
export GOFLAGS=-mod=mod GOPROXY=off GOSUMDB=off GOTOOLCHAIN=local
set -e
cd /verif/harness
go1.26.8 test -c -race -vet=off -tags verif -o /verif/build/props.race.test ./props/
W=/verif/work/devrace.$$
rm -rf $W; mkdir -p $W; cd $W
T=$1; N=${2:-300}; S=${3:-1}
set +e
GORACE="log_path=$W/race halt_on_error=0" VERIF_RACE_LOG=$W/race VERIF_OUT=$W/out VERIF_REGRESS=/verif/regress timeout ${DEV_TIMEOUT:-900} /verif/build/props.race.test -test.run "$T" -rapid.checks=$N -rapid.seed=$S -rapid.nofailfile 2>&1 | grep -v "rapid\] draw" | tail -${DEV_TAIL:-25}
for f in $W/out/*.fail.json; do [ -f "$f" ] && python3 -c "
import json,sys;d=json.load(open('$f'));print('FAILCASE', '$f');print(json.dumps(d['case'])[:3000])"; done
for f in $W/out/*.stats.json; do [ -f "$f" ] && python3 -c "
import json;d=json.load(open('$f'));print(d['id'],d['part'],'cases',d['cases'],'evals',d['evaluations'],'nontrivial',d['distinct_nontrivial']);print(' ',json.dumps(d['classes'],sort_keys=True))"; done
ls $W/race* 2>/dev/null
[ -n "$DEV_KEEP" ] || rm -rf $W
