#!/bin/bash
# dev helper: build the default-toolchain test binary and run one test with rapid
# usage: dev.sh <TestRegex> <checks> <seed> [extra args]
export GOFLAGS=-mod=mod GOPROXY=off GOSUMDB=off GOTOOLCHAIN=local
set -e
cd /verif/harness
go test -c -tags verif -o /verif/build/props.test ./props/
W=/verif/work/dev.$$
rm -rf $W; mkdir -p $W; cd $W
T=$1; N=${2:-1000}; S=${3:-1}; shift; shift || true; shift || true
set +e
VERIF_OUT=$W/out VERIF_REGRESS=/verif/regress timeout ${DEV_TIMEOUT:-600} /verif/build/props.test -test.run "$T" -rapid.checks=$N -rapid.seed=$S "$@" 2>&1 | grep -v "rapid\] draw" | tail -${DEV_TAIL:-25}
for f in $W/out/*.fail.json; do [ -f "$f" ] && python3 -c "
import json,sys;d=json.load(open('$f'));print('FAILCASE', '$f');print(json.dumps(d['case'])[:3000])"; done
for f in $W/out/*.stats.json; do [ -f "$f" ] && python3 -c "
import json;d=json.load(open('$f'));print(d['id'],d['part'],'cases',d['cases'],'evals',d['evaluations'],'nontrivial',d['distinct_nontrivial']);print(' ',json.dumps(d['classes'],sort_keys=True))"; done
[ -n "$DEV_KEEP" ] || rm -rf $W
