"""Per-property legs (test functions, case counts, shards) and evidence metadata."""

TRUST = [
    "Go toolchain, compress/flate, crypto/sha1, encoding/json, net/http request/response parsing (standard library) are the trusted base of the oracles",
    "pgregory.net/rapid v1.3.0 generators/shrinker; a run is a function of (/repo working tree, VERIF_SEED)",
    "transports are in-process scripted net.Conn implementations, not kernel sockets",
]


def leg(test, qchecks, tchecks, qshards=4, tshards=16, bin="std", qtimeout=300, ttimeout=3600, qenv=None, tenv=None):
    return {
        "test": test,
        "bin": bin,
        "quick": {"checks": qchecks, "shards": qshards, "timeout": qtimeout, "env": qenv or {}},
        "thorough": {"checks": tchecks, "shards": tshards, "timeout": ttimeout, "env": tenv or {}},
    }


RACE_ENV = {"GORACE": "log_path={work}/race.{shard} halt_on_error=0", "VERIF_RACE_LOG": "{work}/race.{shard}"}


def raceleg(test, qchecks, tchecks, qshards=8, tshards=16):
    """Leg built with go1.26.8 -race (testing/synctest owned schedules, race detector)."""
    return leg(test, qchecks, tchecks, qshards=qshards, tshards=tshards, bin="race", qenv=dict(RACE_ENV), tenv=dict(RACE_ENV))


def fuzzleg(target, seconds):
    """Native coverage-guided fuzz campaign (thorough tier only)."""
    return {
        "test": "^%s$" % target,
        "bin": "std",
        "fuzz": True,
        "thorough": {"checks": 1, "shards": 1, "timeout": seconds + 120, "env": {},
                     "args": ["-test.fuzz=^%s$" % target, "-test.fuzztime=%ds" % seconds, "-test.fuzzcachedir={work}/fuzzcache"]},
    }


HOOK_COMMITS = ["73f4f1e"]

ALL_IDS = ["C%02d" % i for i in range(1, 21)]

PROPS = {
    "C01": {
        "title": "Message round-trip fidelity across every API, role, buffer size and chunking",
        "level": "exploration",
        "rule": "rapid-generated (writer cfg, reader cfg, write program over all write APIs incl. invalid requests and interleaved control, transport chunking, read program over all read APIs); executed writer->wire->reader of the opposite role; oracle = sent message list (types, bytes, order, count) + control payloads seen by handlers. Write programs also change compression settings while a message writer is open or left open (they must only affect later messages), call WriteJSON with a value encoding/json refuses (must fail; at most an empty text message may reach the wire), and the reader's transport may return its last bytes together with io.EOF. Non-trivial = >=1 data message and (message larger than the write buffer, or split writes, or interleaved control, or compression negotiated+enabled, or chunked transport reads); distinct = distinct FNV-64 of the canonical JSON of the case. part interleaved-readers: 2-3 connections of one process (the flate readers/writers come from process-wide pools) read their own conformant streams with their reads interleaved by a generated schedule (open next / read n bytes / read to end / abandon); every connection must deliver exactly its own messages.",
        "assumptions": TRUST + ["message sizes are sampled up to ~300 KB (boundary biased), not unbounded"],
        "level_text": "Bounded random exploration: tens of thousands of generated (configuration, write program, chunking, read program) cases per run, boundary-biased, judged against the list of messages the program sent. Exploration is the right level because the property quantifies over unbounded inputs and programs; nothing finite enumerates them.",
        "level_note": "Oracle is the harness's own record of what it asked the API to send; the reader under test is the library's, so symmetric writer/reader mistakes are left to C02/C03 (independent codec).",
        "technique": "property-based testing (rapid): generated write/read programs, round-trip oracle, shrinking",
        "legs": [leg("^TestC01$", 5000, 160000, qshards=8), fuzzleg("FuzzC01", 60), leg("^TestC01Multi$", 1500, 30000, qshards=8)],
    },
    "C02": {
        "title": "Everything written to the wire is well-formed RFC 6455 / RFC 7692 framing",
        "level": "exploration",
        "rule": "same generator as C01; the bytes handed to the transport are decoded by the independent strict decoder wsref (mask bit per role, minimal lengths, RSV, opcode/continuation discipline, control frames, close body), matched one-to-one and in order to the API-level messages after unmasking and RFC 7692 inflation, control frames placed between the surrounding flushes, RSV1 only if negotiated+enabled at message start; client mask keys must be fresh 4-byte draws from the connection's key source (verif hook) and the default source must be crypto/rand.Reader. Non-trivial as C01. part prepared-shared: one PreparedMessage sent to a population of connections of differing role / negotiated compression / write-compression setting / level (the C19 generator): every send must put exactly one well-formed message in that connection's framing variant on its wire.",
        "assumptions": TRUST + ["mask key quality is reduced to: default source is crypto/rand.Reader and every frame key is a fresh draw from the configured source"],
        "level_text": "Bounded random exploration of write programs; every byte the connection hands to the transport is judged by an independent strict RFC 6455/7692 decoder and matched to the API-level messages. Exploration because the input space is unbounded.",
        "level_note": "Independent decoder wsref (self-tested on the RFC 6455 5.7 and RFC 7692 7.2.3 byte strings); compress/flate is trusted for inflation; the mask-key clause uses the verif hook (falls back to a statistical check if the tagged build fails).",
        "technique": "property-based testing (rapid): generated write programs, independent-decoder differential oracle",
        "legs": [leg("^TestC02$", 5000, 160000, qshards=8), fuzzleg("FuzzC02", 60), leg("^TestC02Prepared$", 2500, 60000, qshards=8)],
    },
    "C03": {
        "title": "The reader decodes any conformant peer stream, however fragmented or read",
        "level": "exploration",
        "rule": "streams are generated by the independent encoder wsref (1-6 messages, 0-8 fragments incl. empty ones, 7/16/64-bit lengths at the thresholds, per-frame mask keys incl. 00000000/ffffffff/payload-equal, ping/pong at any frame boundary, optional close; compressed messages produced by independent deflate producers: compress/flate at every level with sync flushes, hand-written stored blocks, hand-written fixed-Huffman blocks with matches, BFINAL form) (the transport may return its last bytes together with io.EOF) and read by generated read programs (ReadMessage, NextReader+sized reads incl. 0 and >= bufio size, bufio/ReadAll wrappers, ReadJSON, JoinMessages, abandonment) under generated transport chunkings; oracle = the encoded message list (reference model) and the control frames in wire order. Non-trivial = a message with >=2 frames, or a control frame between fragments, or a compressed message, or an abandoned message, or a chunked transport. part mask-carry-sweep: exhaustive enumeration (113652 cells) of {reader role} x message length 0..40 x first-fragment length 0..N x application read size {1,2,3,4,5,7,8,9,16,17,64} x transport chunk {as-is,1,3} x {ping between the fragments or not}, every cell judged by the same oracle. part interleaved-readers: as in C01 - several connections reading compressed and uncompressed streams with interleaved reads; each must decode its own stream.",
        "assumptions": TRUST + ["mask keys and deflaters are sampled (special keys and four producer families), not all 2^32 keys"],
        "level_text": "Bounded random exploration of conformant streams x read programs x chunkings against a reference model of what the stream encodes; the encoder and the deflate producers are independent of the library.",
        "level_note": "Reference encoder/deflaters in harness/wsref, self-tested on RFC byte vectors; ReadJSON is judged differentially against encoding/json on the true payload.",
        "technique": "property-based testing (rapid): independent encoder as generator, reference-model oracle, shrinking",
        "legs": [leg("^TestC03$", 4000, 120000, qshards=8), leg("^TestC03Sweep$", 1, 1, qshards=8, tshards=16), leg("^TestC03Multi$", 2000, 40000, qshards=8), fuzzleg("FuzzC03", 60)],
        "sweep_note": "the driver treats legs whose test name ends in Sweep$ or Cells$ as enumerations",
    },
    "C04": {
        "title": "Framing violations are rejected fail-stop and never reach the application",
        "level": "fault_enumeration",
        "rule": "part alphabet: EXHAUSTIVE enumeration of the next-frame alphabet {idle, inside a fragmented message} x role x compression negotiated x 16 opcodes x FIN x RSV1 x RSV2 x RSV3 x MASK x length class {0,1,125,126,65536,top bit,64-bit wrap-around} (+21 close-body classes) = 38400 cells (incl. control frames that use an extended length field for a short payload, and 64-bit lengths 2^64-n that wrap the running message length), each classified valid/violation/unspecified by an independent RFC classifier; violation => error at that frame, earlier message intact, nothing of the frame or the conformant suffix delivered or handled, 5 later reads return the same error, exactly one close frame 1002 written (optional for top-bit lengths); valid => accepted and decoded as the reference decoder says. part history: rapid-generated conformant prefix (C03 generator, optionally ending inside a message, read with abandonment) + one violating frame built by mutating a valid frame + conformant suffix; same oracle plus pongs owed for the prefix. part after-contention (testing/synctest owned schedule, -race binary): the C11 actors with a writer held in the transport so that WriteControl callers time out behind it; after every writer has returned the reader receives a frame with RSV2: exactly one close frame with status 1002 must still be written. An evaluation that failed and took >= 400 ms of wall clock is evaluated again (the library arms a one-second wall-clock deadline for automatic replies). Non-trivial = every violation/valid cell; histories with >=1 completed message or an open message; owned schedules with the write lock contended.",
        "exhaustive_quick": True,
        "exhaustive_thorough": True,
        "assumptions": TRUST + ["the alphabet uses one representative length per class and 21 close-body classes", "unspecified cells (RSV1 on control/continuation with compression, 1-byte close body, codes 1012-1014) are only checked for no-panic and stickiness"],
        "level_text": "The header alphabet is finite and is enumerated completely in every run (29696 cells); the history quantifier is explored by random prefixes. Each cell is one injected protocol fault, hence fault_enumeration.",
        "level_note": "Independent classifier written from RFC 6455 5.2/5.4/5.5/7.4 in harness/props/c04.go; valid cells are cross-checked against the reference decoder so the classifier cannot drift to reject-everything.",
        "technique": "exhaustive alphabet enumeration + property-based testing (rapid) of prefix histories, independent classifier oracle",
        "legs": [leg("^TestC04Cells$", 1, 1, qshards=8, tshards=16), leg("^TestC04Hist$", 6000, 200000, qshards=8), raceleg("^TestC04Owned$", 300, 12000), fuzzleg("FuzzC04Hist", 60)],
    },
    "C05": {
        "title": "No silent truncation: a transport fault yields whole messages, then an error",
        "level": "fault_enumeration",
        "rule": "rapid-generated valid stream (C03 generator, both roles, compressed or not) x EVERY cut offset 0..len (exhaustive for streams <= 600 bytes, boundary+300 evenly spaced offsets above) x 10 fault behaviours {EOF, EOF with the last bytes, io.ErrUnexpectedEOF, io.ErrUnexpectedEOF with bytes, error, error with bytes, timeout, timeout with bytes, timeout then the transport resumes, error+bytes then resumes} x chunking x read program (incl. reads >= bufio size, abandonment; a sixth of the cases consume the whole stream through one JoinMessages reader with an empty, newline or two-character terminator) x 1..900 later calls; oracle: delivered messages are byte-identical prefixes of the sent ones, a message is reported complete only if all its wire bytes arrived (or its deflate stream is self-terminating), every message that had fully arrived before the failing transport read is delivered, partial message => non-nil error != io.EOF, an error follows, and NextReader keeps returning the same error and nothing more; a message reader that has failed is read twice more and must return no data and an error other than io.EOF; a joined stream never ends with io.EOF in the middle of a message and its terminator appears only after fully arrived messages. Non-trivial = (case, offset, kind) with the cut inside a frame header, inside a payload or between two fragments of a message.",
        "assumptions": TRUST + ["fault behaviours are the legal io.Reader behaviours listed; kernel-level partial reads are modelled by the chunk plan"],
        "level_text": "Every byte offset of each generated stream is cut by every fault kind (exhaustive per stream up to 600 bytes); streams themselves are sampled.",
        "level_note": "Reference model from the independent encoder; which transport read failed is taken from the scripted transport's own accounting.",
        "technique": "fault-injection enumeration (every offset x every fault kind) over rapid-generated streams",
        "legs": [leg("^TestC05$", 150, 2400, qshards=8)],
    },
    "C06": {
        "title": "Read limit is exact, history-independent and bounds memory",
        "level": "exploration",
        "rule": "rapid-generated (limit L in 1..300 / 125 / 126 / 1024 / 4096 / 65535 / 65536 / 10^6; 0-4 within-limit messages of wire size L, L-1, small or random, any fragmentation, pings in between, compressed or not (incl. compressed messages of wire size <= L that INFLATE to more than L: the limit is on the wire size, they must be delivered in full), each read fully / partly / not at all; then optionally one over-limit message whose running sum of claimed frame lengths crosses L at frame 0..3 with a claimed length of L+1-sum, 2L, 2^31, 2^63-1 (overflowing sums) or a top-bit length, the crossing frame's payload present / partly present / absent with the transport reporting a distinctive error). Oracle: every within-limit message that is read is delivered in full; the over-limit read fails with ErrReadLimit (also when no payload byte is available), delivers <= L bytes which are a prefix of the earlier frames, later reads fail, pongs owed + exactly one close 1009 are written (optional for overflow/top-bit), and heap allocation while receiving stays below 8 MiB + 8 x bytes received - also for a frame whose claim (2^27..2^30) is WITHIN a raised limit of 2^40 but of which only a few bytes exist, read through ReadMessage or NextReader. Non-trivial = a message of wire size L or L-1 after an abandoned multi-frame predecessor, or an over-limit message with L+1 / overflow / top-bit.",
        "assumptions": TRUST + ["memory is measured process-wide (runtime/metrics /gc/heap/allocs:bytes) with a generous constant, so only allocation scaling with the claimed length is detected"],
        "level_text": "Bounded random exploration over limits, histories and 64-bit length corners with a reference model of which messages are within the limit.",
        "level_note": "Streams come from the independent encoder (claimed lengths are written verbatim into hostile headers).",
        "technique": "property-based testing (rapid): generated read histories and hostile length fields, model oracle",
        "legs": [leg("^TestC06$", 8000, 200000, qshards=8), fuzzleg("FuzzC06", 60)],
    },
    "C08": {
        "title": "Control frames: handlers see each frame once; ping answered, close echoed",
        "level": "exploration",
        "rule": "rapid-generated conformant streams with emphasised control traffic (0-5 ping/pong per message at any fragment boundary incl. back to back, payloads 0..125 boundary-biased, close with must-accept codes and UTF-8 reasons up to 123 bytes or empty body) x both roles x handler modes {default, custom, failing at occurrence k} x read programs with abandonment; oracle: handler log == control frames in wire order, each once, exact payload/code; each handler runs while the application is on the right message and, for uncompressed messages read through NextReader, after exactly the bytes that precede the frame; default handlers => pongs with identical payload in order then one close with the same status (empty for empty), reads fail with CloseError{code,text} permanently; a handler error is returned by the read in progress and by every later read, and nothing after it is handled; when the application has already sent its own close frame (locally initiated closing handshake) nothing more is written but the frames still reach the handlers and reads still end with the CloseError of the received close. Close reasons include U+FFFD, U+FFFE, U+10FFFF, U+E000, NUL and DEL. A quarter of the cases set a read limit equal to the largest message's wire size (control frames belong to no message: nothing may change). Non-trivial = control frame between fragments, or 125-byte payload, or close with reason, or handler error.",
        "assumptions": TRUST + ["for compressed messages handler/data order is asserted at message granularity (flate read-ahead)"],
        "level_text": "Bounded random exploration of control-frame placements and payloads against the wire-order model.",
        "level_note": "Write-back bytes are decoded by the independent decoder.",
        "technique": "property-based testing (rapid): generated control-frame placements, wire-order model oracle",
        "legs": [leg("^TestC08$", 10000, 200000, qshards=8), fuzzleg("FuzzC08", 60)],
    },
    "C07": {
        "title": "Untrusted network input never panics, hangs or allocates out of proportion",
        "level": "exploration",
        "rule": "four entry points: (frames) byte strings - raw, or structured mutations (bit flips, truncation, extreme 64-bit lengths, hostile constants, spliced control headers, duplicated/deleted slices) of conformant streams from the independent encoder - fed to a Conn of either role, with/without compression and read limit - for servers optionally glued to the handshake (first k bytes already in the hijacked bufio.Reader, ReadBufferSize 0..512) - and drained with NextReader+Read or with ReadMessage until the first error; a generator class appends a header claiming 2^16..2^64-1 bytes to a conformant prefix; (dialreply) byte strings / mutated reply templates as the server's reply to Dial; (proxyreply) the same as a proxy's CONNECT reply followed by a valid 101 - reply templates include refusals that declare more body than they deliver (Content-Length, unterminated chunked); a reply that an independent strict parser accepts as a complete head with a status other than 200 must make Dial return an error without asking the (silent) proxy connection for another byte; (headers) generated values (pool of hostile token/quoted-string/extension strings, key-shaped strings around the 24-character/16-byte boundary, mutations, raw bytes) for Connection, Upgrade, Sec-WebSocket-Version/-Key/-Protocol/-Extensions, Origin and Host passed to Upgrade, Subprotocols and IsWebSocketUpgrade both directly and through http.ReadRequest. Oracle: no panic, every call returns a value xor an error, the drain loop needs <= len/2+8 iterations, bytes delivered <= 1100 x input, heap allocation <= 16 MiB + 2 KiB x input, a 120 s watchdog reports a call that never returns. Quick = rapid generators; thorough adds four native go-fuzz campaigns (coverage guided, seeded with valid streams/replies and hostile constants). Non-trivial = the input reached protocol logic (a frame was accepted or answered / http.ReadResponse succeeded / CONNECT was parsed / net/http accepted the header values).",
        "assumptions": TRUST + ["decompression expansion into the application's buffer is inherent to RFC 7692 and not counted; the harness drains into a fixed buffer", "the documented panic after 1000 reads on a failed connection is never provoked (3 extra reads)"],
        "level_text": "Fuzzing / random exploration: evidence of absence of crashes over generated and coverage-guided inputs, never a proof.",
        "level_note": "Transports are scripted; watchdog is wall-clock (120 s for cases that take < 10 ms).",
        "technique": "fuzzing: rapid structured-mutation generators (quick) + native coverage-guided go test -fuzz campaigns (thorough), crash/no-progress/allocation oracle",
        "legs": [leg("^TestC07$", 15000, 240000, qshards=8),
                 fuzzleg("FuzzC07Frames", 100), fuzzleg("FuzzC07DialReply", 60), fuzzleg("FuzzC07ProxyReply", 60), fuzzleg("FuzzC07Headers", 60)],
    },
    "C09": {
        "title": "A close frame is the last thing a connection ever writes",
        "level": "exploration",
        "rule": "part afterclose (sequential interleavings): a rapid-generated write program (all write APIs, invalid requests, writers left open) into which one close action is inserted at a generated position - as a step or between the calls of an open message writer - by one of 7 paths {WriteControl, WriteMessage, NextWriter+Close, PreparedMessage, default close handler answering a peer close, automatic 1002 after a framing violation, automatic 1009 after a read-limit breach}, followed by further steps of every kind; oracle: the wire decodes (independent decoder) to valid frames ending with that close frame and not one byte after it; every WriteMessage/NextWriter/WriteControl/WriteJSON/WritePreparedMessage call that starts afterwards fails, with ErrCloseSent when the request is valid; Close of a writer opened before the close frame fails; every message reported sent is completely on the wire before the close frame. Non-trivial = the close lands inside an open message, or calls follow it.",
        "assumptions": TRUST + ["part owned-schedule: actors {writer program, 0-4 WriteControl callers incl. close senders, reader with default handlers fed pings/close} run in a testing/synctest bubble (go1.26.8); every transport Write blocks at a gate, a rapid-generated schedule of {start actor, grant oldest write, advance fake clock, Close} decides who proceeds, so a close frame can be held inside the transport while others queue on the write lock; granularity is API call / transport write / lock acquisition, not instructions"],
        "level_text": "Bounded random exploration of positions and paths of the close inside write programs (sequential interleavings at API-call granularity).",
        "level_note": "Wire judged by the independent decoder; error identities asserted only where the statement names them (ErrCloseSent).",
        "technique": "property-based testing (rapid): generated programs with an inserted close action, history invariant oracle",
        "legs": [leg("^TestC09$", 8000, 200000, qshards=8), raceleg("^TestC09Owned$", 600, 30000)],
    },
    "C10": {
        "title": "Write failures are fail-stop; bad requests write nothing; deadlines are applied",
        "level": "fault_enumeration",
        "rule": "rapid-generated write program (all write APIs, invalid requests at any position, SetWriteDeadline / WriteControl deadlines from {zero, distinct future instants}); a fault-free run counts the write-side transport operations N (SetWriteDeadline, Write) and checks: invalid requests return an error, add no byte and leave the connection usable (independent decoder + one-to-one match), every transport Write is preceded within the same API call by a SetWriteDeadline carrying the deadline in force (WriteControl: its argument). Then for EVERY k < N and each fault kind {error, timeout, short write + error} the program is re-run with the fault at operation k: accepted bytes = valid frames + at most one truncated frame (and, for the server role, a prefix of the fault-free stream), nothing is handed to the transport afterwards, the faulted call and every later message-level call return non-nil. Non-trivial = (case,k,kind) with a multi-frame message in the program or the fault on a deadline call; or an invalid request between two valid messages. part owned-schedule-fault (testing/synctest): the C11 actors (writer program, WriteControl callers, reader) under an owned schedule in which one pending transport write is made to FAIL while other callers are queued on the write lock; oracle: no write reaches the transport after the failed one, calls started afterwards fail, a control frame is on the wire iff its call returned nil.",
        "assumptions": TRUST + ["fault kinds are those named in the statement; partial writes accept half of the buffer"],
        "level_text": "Every write-side transport operation of each generated program is failed in turn with every fault kind (exhaustive per program); programs are sampled.",
        "level_note": "The scripted transport records what is offered to Write after a failure, so 'nothing more is ever written' is observed directly.",
        "technique": "fault-injection enumeration (every transport operation x every fault kind) over rapid-generated write programs",
        "legs": [leg("^TestC10$", 1000, 50000, qshards=8), raceleg("^TestC10Owned$", 400, 20000)],
    },
    "C20": {
        "title": "Pooled write buffers are held only while writing and never touched after release",
        "level": "exploration",
        "rule": "1-4 connections (either role, compression or not, one WriteBufferSize) share one instrumented BufferPool that attributes Get/Put to the scheduled connection, locates the pooled []byte by reflection, poisons it on Put and verifies the poison on the next Get and at the end; each connection runs a rapid-generated write program (invalid requests, writers left open, close messages, optional transport fault at operation k as in C10); the programs are interleaved API call by API call by a generated schedule; in a quarter of the programs Conn.Close() is called after the k-th API call (also while a message is open): it must not change the number of buffers the connection holds. Oracle after EVERY call: buffers held by the connection == 1 iff a message writer is open and has not failed (0 between messages however the message ended); Get/Put alternate, the buffer returned is the one taken and is not already pooled; poison intact; afterwards Get==Put and each connection's wire decodes to exactly its own messages. Non-trivial = >=2 connections alternating on the pool, or a message ended by an error / implicit close / invalid request.",
        "assumptions": TRUST + ["the pooled value's []byte is found by reflection (struct field or pointer); if it cannot be located the poison checks are skipped and the evidence says DEGRADED", "part pool-concurrent (-race binary): the same populations with every connection's program in its own goroutine; each connection gets its own view of the shared pool so Get/Put stay attributed; oracle adds: race detector report unchanged"],
        "level_text": "Bounded random exploration of programs x interleavings with a reference count of open writers.",
        "level_note": "Interleaving granularity is one public API call.",
        "technique": "property-based testing (rapid): generated multi-connection schedules, instrumented pool, invariant after every step",
        "legs": [leg("^TestC20$", 8000, 240000, qshards=8), raceleg("^TestC20Conc$", 300, 12000)],
    },
    "C11": {
        "title": "Documented concurrency contract: race-free, frames atomic, WriteControl bounded",
        "level": "exploration",
        "rule": "actors: 1 writer running a rapid-generated write program (all APIs, invalid requests, optional close), 1 reader with default handlers fed 0-3 pings and an optional close, 0-3 WriteControl callers (ping/pong/close, zero or finite deadlines), Close at a generated moment. part owned-schedule (testing/synctest bubble, fake clock, -race): every transport Write blocks at a gate; a generated schedule of {start actor, grant oldest write, advance fake time 1..1100 ms, Close} owns the interleaving, so a writer can be held inside the critical section past other callers' deadlines. Oracle: never two goroutines inside transport Write; the transport's write deadline is never changed while another caller's Write is inside the transport; the wire decodes (independent decoder) to whole frames with control frames only between frames; the writer's messages arrive in order with exact payloads; a control frame is on the wire iff its call returned nil; a WriteControl that failed returned a timeout net.Error no later than its deadline on the fake clock (exact), wrote nothing, and the writer's later calls still succeed; a WriteControl that succeeded reached the transport no later than its deadline; nobody is stuck after all writes are granted and 20 s of fake time; nothing follows a close frame and calls started after it fail. part free-running-race: the same actors as real parallel goroutines over an ungated transport that yields inside Write; oracle = race detector report file unchanged (GORACE log_path) + the same wire oracle. parts shared-prepared-message / shared-pool: one PreparedMessage, respectively one instrumented write buffer pool, shared by up to 8 connections each driven by its own goroutine under the race detector (the concurrent legs of C19 and C20). Non-trivial = a call started while another write was held in the transport, or a WriteControl timed out, or a shared-object case.",
        "assumptions": TRUST + ["schedules are explored at the granularity API call / transport write / lock acquisition, not instruction level; data-race freedom is only observed on executed schedules (race detector)", "the stepped scheduler adds happens-before edges, hence the separate free-running leg for races"],
        "level_text": "Bounded exploration of generated schedules with an owned scheduler and clock (deterministic), plus randomized real-parallel stress under the race detector. This is the weakest fit for property-based testing: 'for all schedules' is sampled.",
        "level_note": "Needs go1.26.8 (testing/synctest) and -race; both are pre-installed.",
        "technique": "property-based testing (rapid) of schedules inside testing/synctest bubbles (owned scheduler + fake clock) and race-detector stress",
        "legs": [raceleg("^TestC11Owned$", 400, 25000), raceleg("^TestC11Free$", 300, 20000), raceleg("^TestC11SharedPrepared$", 150, 6000), raceleg("^TestC11SharedPool$", 150, 6000)],
    },
    "C19": {
        "title": "A PreparedMessage equals WriteMessage on every connection it is sent to",
        "level": "exploration",
        "rule": "one PreparedMessage (text/binary/ping/pong/close; payload sizes incl. 0, 125/126, 4095-4097, 8191-8222, 65535/65536, 70000, random) and a rapid-generated history of sends to a population of 1-8 connections ({client,server} x {compression negotiated or not} x write buffer), interleaved with EnableWriteCompression / SetCompressionLevel(-2..9) changes on those connections and with scribbling over the caller's slice after creation. Oracle per send: the bytes that connection's transport received decode (independent decoder) to exactly one complete message of the prepared type whose unmasked / inflated payload equals the ORIGINAL payload, masked iff client, RSV1 only if negotiated+enabled+data at the time of the call; differential: a fresh twin connection with the same role and settings history given WriteMessage(type, payload) sends the same message in the same compressed/uncompressed variant; after a prepared close nothing more is written and sends fail with ErrCloseSent; an oversized prepared control message is refused and writes nothing. part prepared-concurrent (-race binary): the per-connection histories run in parallel goroutines sharing the one PreparedMessage; oracle adds: race detector report unchanged. Non-trivial = sent to >=2 connections, or a setting changed between two sends to one connection, or the caller's slice mutated, or concurrent.",
        "assumptions": TRUST,
        "level_text": "Bounded random exploration of send histories over connection populations with a per-send decode + differential oracle.",
        "level_note": "Twin connections are created per send through the public API.",
        "technique": "property-based testing (rapid): generated send histories, independent-decoder + differential (WriteMessage twin) oracle; race-detector leg",
        "legs": [leg("^TestC19$", 5000, 120000, qshards=8), raceleg("^TestC19Conc$", 300, 12000)],
    },
    "C12": {
        "title": "Server handshake: upgrade iff request is a valid opening handshake; correct 101",
        "level": "exploration",
        "rule": "requests are generated from the handshake grammar as raw bytes (method; Connection/Upgrade token lists over 1-2 lines with arbitrary OWS, case variants, extra tokens and near-miss tokens such as websockets/xupgrade/upgrade2; version values and lists; keys = base64 of 0..32 bytes, bad alphabet, wrong padding, missing, doubled; own/foreign/absent origin with default/allow/deny policy; subprotocol offers; 22 extension offers incl. parameters, quoted strings with escaped quotes that contain the extension name, near-miss names) in three modes (all elements valid / exactly one faulty element / free mix), parsed by http.ReadRequest, and given to Upgrade with generated Upgrader settings (Subprotocols nil/empty/lists, EnableCompression, buffers, pool) and responseHeader maps whose values are arbitrary bytes incl. CR, LF, NUL. An independent classifier (RFC 6455 4.2.1, RFC 7230 list syntax) says valid / invalid(faults) / unspecified. valid => Conn returned, hijacked once, and the bytes written are exactly one response accepted by a strict parser (CRLF only, no bare CR/LF): 101, Upgrade: websocket, Connection: Upgrade, Accept = independent SHA-1 digest of the key, subprotocol in offers AND Subprotocols (and present when they intersect), extension announcement only if enabled AND offered (never when the name occurs only inside a quoted-string), header-name multiset == protocol headers + application headers (no injected line), nothing after the blank line. invalid => HandshakeError, never hijacked, connection not closed (it belongs to net/http), status >= 400 (403 when origin is the only fault, 426 + Upgrade header whenever the Upgrade token is missing and the Connection header is valid, whatever else is wrong), nothing written to the raw connection. Non-trivial = valid request with multi-token lists or several lines, invalid request with exactly one fault, response header values with control bytes.",
        "assumptions": TRUST + ["unspecified zones (empty list elements, non-token junk, version lists containing 13, several key/origin/protocol lines, non-canonical base64) are only checked for consistency"],
        "level_text": "Bounded random exploration of the request grammar and Upgrader settings against an independent classifier and a strict response parser.",
        "level_note": "net/http's request parser is the trusted front end (requests it refuses are counted and discarded).",
        "technique": "property-based testing (rapid): grammar-based request generator, independent classifier + strict-parser oracle",
        "legs": [leg("^TestC12$", 20000, 1500000, qshards=8), fuzzleg("FuzzC12", 60)],
    },
    "C13": {
        "title": "Default origin policy admits same-origin requests only",
        "level": "exploration",
        "rule": "(Host, Origin) pairs: Host from 13 shapes (names, ports, IPv4/IPv6 literals, mixed case, hosts containing k/s/i); Origin derived by one of 21 constructions: absent, same, same in another ASCII case, one-character edit, added/removed label, prefix/suffix look-alike, different / missing / added (default) port, userinfo tricks (host@evil, host:80@evil, evil@host), code points that fold to ASCII only under Unicode folding (U+212A, U+017F, U+0130, U+0131, full-width, Greek omicron), percent-encoded host bytes incl. malformed escapes, null, junk, fragment/query/path tricks, other hosts, backslashes, IPv6 spelling variants, scheme-less. Each pair is tried as a directly constructed request and through http.ReadRequest, each with an origin-form and with an absolute-form request target. Oracle: safety - if Upgrade succeeds the Origin was absent or an independent RFC 3986 authority extractor (last @, percent-decoded) yields host[:port] equal to Host under ASCII-only folding; liveness - absent Origin and clean same-origin constructions are upgraded; every refusal is 403 + HandshakeError without hijack. Non-trivial = origin host within 2 code-point edits of Host, Unicode-only fold, or same-origin differing in case.",
        "assumptions": TRUST,
        "level_text": "Bounded random exploration of adversarial near-miss origins against an independent origin-host extractor.",
        "level_note": "The extractor is written from RFC 3986 section 3.2 in harness/wsref.",
        "technique": "property-based testing (rapid): adversarial origin generator, independent-parser oracle (safety + liveness)",
        "legs": [leg("^TestC13$", 20000, 1500000, qshards=8), fuzzleg("FuzzC13", 60)],
    },
    "C14": {
        "title": "Client handshake: connect iff the reply proves the server accepted this request",
        "level": "exploration",
        "rule": "URLs (scheme ws/wss/WS/http/https/empty/other, optional userinfo, host names/IPv4/IPv6 literals with and without port, paths with reserved and percent-escaped characters, queries), Dialer settings (Subprotocols, EnableCompression) and caller header maps (benign names incl. Host override and cookies, and each protocol-owned name) are generated; every case dials twice on one Dialer, with the same caller header map, against a scripted server (both requests are judged; Dial must return without asking the connection for more input once the valid 101 is complete): first a plain valid reply, then a reply built from the observed request in three modes (valid with variations of header-name case, token case, extra tokens, OWS, several lines / exactly one defect / free mix): status of every class, missing or near-miss Upgrade/Connection tokens, Accept absent / truncated / prefix / for another key / STALE from the first dial / trailing junk / case-changed / empty, bodies of 0..5000 bytes length-delimited or chunked. Oracle: a Conn is returned iff status 101 and Upgrade has token websocket and Connection has token upgrade and Accept equals the independent digest of the key sent in THIS request; otherwise ErrBadHandshake with the reply's status, headers and the first min(1024,n) body bytes; the captured request is accepted by a strict parser: GET, request-target == path?query of the URL, HTTP/1.1, Host = URL host or override, exactly one Upgrade/Connection/Version/Key, key canonical base64 of 16 bytes and never repeated in the run, subprotocols as configured, permessage-deflate offered iff enabled, caller headers present; protocol-owned caller headers, non-ws(s) schemes and userinfo are refused with zero calls of the dial hook. Non-trivial = reply differing from a valid one in exactly one element; URLs with query/escapes/IPv6.",
        "assumptions": TRUST + ["a reply whose Connection header carries the token close is unspecified (net/http deletes that header before the library sees it)"],
        "level_text": "Bounded random exploration of replies, URLs, settings and header maps with an independent digest and a strict request parser.",
        "level_note": "The scripted server computes replies from the bytes the client actually wrote.",
        "technique": "property-based testing (rapid): scripted-server reply generator, iff-classifier oracle, strict request parser",
        "legs": [leg("^TestC14$", 10000, 1000000, qshards=8), fuzzleg("FuzzC14", 60)],
    },
    "C15": {
        "title": "Both endpoints always agree on whether compression is in use",
        "level": "exploration",
        "rule": "three legs. pair: a real Dialer and a real Upgrader are connected through scripted transports (the Upgrader runs on the request bytes the Dialer wrote; the client reads the 101 bytes the server wrote) for all 4 EnableCompression combinations; 1-6 messages of generated sizes flow in both directions with EnableWriteCompression / SetCompressionLevel(-2..9) changes on the sender before a message or in the middle of a message written through NextWriter (the open message keeps its framing), and receivers that sometimes read only a prefix or leave a message half-read while the next message flows in the opposite direction (both endpoints of the process inside a message at once). server: Upgrader against a scripted client with 22 extension offers (absent, parameters, quoted strings, other extensions first, several lines, near-miss names, malformed) or a composed offer (1-4 well-formed elements, permessage-deflate at any position, spread over 1-3 header lines). client: Dialer against a scripted 101 with 16 announcement variants (none, each no_context_takeover parameter missing, extra parameters, other extensions, near-miss names) or a composed announcement of the same shape. Observable 'compresses' = RSV1 on a data frame (independent decoder + RFC 7692 inflate); 'accepts' = a scripted RSV1 message (independent deflater) is decoded rather than failing the connection. Oracle: every message is received intact by the other side under every toggle history; RSV1 appears only if the 101 announced permessage-deflate with both parameters, which happens only if both sides enabled it (server: iff enabled and cleanly offered); an announcement lacking a parameter makes Dial fail; scripted RSV1 messages are accepted iff negotiated, uncompressed ones always. Non-trivial = off-diagonal settings, offers/announcements given, or >=1 toggle; the fraction of cases with RSV1 observed is reported.",
        "assumptions": TRUST + ["malformed offers are unspecified except that text inside a quoted-string is never an extension name; for an unsolicited complete announcement the client may refuse the handshake but, if Dial succeeds, must accept compressed messages (agreement)"],
        "level_text": "Bounded random exploration of the configuration matrix, offer/announcement grammars and toggle histories with an independent codec as observer.",
        "level_note": "Compression is observed on the wire, not through library state.",
        "technique": "property-based testing (rapid): real Dialer/Upgrader pairs plus scripted peers, independent-codec oracle",
        "legs": [leg("^TestC15$", 6000, 240000, qshards=8)],
    },
    "C17": {
        "title": "No bytes are lost or reordered at the handshake boundary",
        "level": "fault_enumeration",
        "rule": "a rapid-generated conformant stream S (C03 generator: fragmentation, control frames, compression, close) is glued to the handshake and EVERY split is tried. Server: for every k in 0..min(h, len S) the first k bytes sit in the hijacked bufio.Reader of size h in {16,64,128,255,256,257,512,4096,8192} and the rest arrives from the socket under a generated chunking, with Upgrader.ReadBufferSize in {0,1,64,255,256,257,1024} - this selects the three code paths reuse-hijacked-reader / wrap-buffered-bytes / fresh-reader, reported separately. Client: the transport delivers '101 response || S' with the first read returning k bytes for every k in 1..len(response)+len(S) and the rest under a generated chunking, ReadBufferSize in {0,1,64,125,126,300,4096}; optionally a second connection is dialed (its own frames glued to its 101) after the first Dial returned and before the first connection is read, and each must deliver its own messages. A third of the client cases dial through DialContext with an httptrace.ClientTrace (all hooks set) in the context. The transport may return its last bytes together with io.EOF. Oracle: the messages read from the returned Conn (generated read program) equal the encoded ones, complete and in order, and a glued close frame is reported. Non-trivial = a split strictly inside S.",
        "assumptions": TRUST,
        "level_text": "Every split point of each generated stream is enumerated (exhaustive per stream and buffer combination); streams and buffer sizes are sampled. The split point is the injected condition, hence fault_enumeration.",
        "level_note": "Reference model from the independent encoder.",
        "technique": "exhaustive split-point enumeration over rapid-generated streams, reference-model oracle",
        "legs": [leg("^TestC17$", 80, 6400, qshards=8)],
    },
    "C18": {
        "title": "Proxy tunnelling and TLS are applied on every dial path",
        "level": "exploration",
        "rule": "part matrix: EXHAUSTIVE enumeration of {no proxy, http, https, socks5} x {ws, wss} x {NetDial, NetDialContext, NetDialTLSContext each set/unset} x {no credentials, user, user:password whose base64 contains + and /} x {backend certificate valid for the host / for another host / untrusted CA} = 576 cells, two URL hosts per cell dialed on one Dialer (names, IPv4/IPv6 literals, explicit and default ports); in the 117 cells where no custom dial function applies the library's default net.Dialer makes the first hop to a loopback listener served by the same in-process peers (counted as skipped_no_loopback only if 127.0.0.1 cannot be listened on). All peers are in-process goroutines behind an instrumented in-memory pipe: HTTP CONNECT proxy (optionally behind TLS), RFC 1928/1929 SOCKS5 server, TLS backend with an in-process CA, WebSocket backend echoing through the independent codec. An independent table derived from the Dialer documentation gives per cell: which custom dial function makes the first hop and to which address (default ports 80/443/1080), exactly one CONNECT for host:port (80/443 by default) with Basic Proxy-Authorization iff a password is present, the SOCKS5 target and username/password sub-negotiation, SNI = URL host, the backend receives the upgrade request only inside a verified TLS session for wss (wrong/untrusted certificate or nil TLSClientConfig => Dial fails and the backend sees no HTTP), a custom NetDialTLSContext is trusted, success cells round-trip. part hosts-and-replies: rapid-generated cells with 1-3 hosts, escaped and non-ASCII credentials, proxy hosts with default ports and 13 refusal replies (407 with/without reason phrase, 2xx other than 200, 1xx, 3xx, 5xx, HTTP/1.0): every non-200 reply aborts Dial with an error and nothing more is sent. Non-trivial = cells with a proxy or TLS.",
        "exhaustive_quick": True,
        "exhaustive_thorough": True,
        "assumptions": TRUST + ["real networks (DNS, routed sockets, environment-derived proxies) are replaced by in-process peers; only the default-dialer cells use a loopback TCP listener", "user-without-password for SOCKS5 is unspecified"],
        "level_text": "The configuration matrix is finite and enumerated completely in every run; hosts and proxy replies are sampled.",
        "level_note": "crypto/tls and crypto/x509 (standard library) are trusted for the peer side and certificate generation.",
        "technique": "exhaustive configuration-matrix enumeration + property-based testing (rapid) of hosts/replies, table oracle from the documentation, in-process proxy/TLS peers",
        "legs": [leg("^TestC18Cells$", 1, 1, qshards=8, tshards=16), leg("^TestC18Rand$", 600, 64000, qshards=8)],
    },
    "C16": {
        "title": "Handshakes clean up on every failure path and leave no deadline on success",
        "level": "fault_enumeration",
        "rule": "paths {direct ws via NetDialContext or NetDial, direct wss (library TLS), direct wss via a trusted NetDialTLSContext, via HTTP CONNECT proxy, via HTTPS proxy (library TLS to the proxy, or NetDialTLSContext), via SOCKS5 - each proxy path optionally with a wss backend through the tunnel} and Upgrade (with/without HandshakeTimeout, with bytes pre-buffered in the hijacked reader so the wrapper path is taken, failing Hijack), HandshakeTimeout / context deadline from a generated set incl. none. Peers are in-process goroutines behind an instrumented pipe (CONNECT proxy, SOCKS5, TLS with an in-process CA, WebSocket backend). part handshake-faults: a fault-free run numbers the operations N of the first-hop connection (Read, Write, SetDeadline, SetReadDeadline, SetWriteDeadline, Close); then EVERY index k <= N+1 x fault kind {error, timeout, EOF} is injected (k beyond the run's own N counted as trivial); also negative replies (403 to the upgrade, 13 proxy refusal replies incl. status lines without reason phrase, wrong certificate). Oracle: on any failure Dial/Upgrade returns (nil, err) and the first-hop connection's Close was called (Upgrade: after a successful hijack); on success the connection is open and replaying the logged deadline calls leaves read and write deadlines cleared; with a limit configured every Read/Write outside library-made TLS ran with a deadline armed no later than the limit. part stall-fake-clock (testing/synctest, go1.26.8): the peer goes silent at a generated stage {accept, proxy reply, SOCKS reply, backend TLS, ws reply}; Dial must return an error no later than the limit on the fake clock (exact) on every path incl. TLS handshakes, with the connection closed. Non-trivial = a fault that fired at operation k; every stall case.",
        "assumptions": TRUST + ["fault kinds are error / timeout / EOF at operation granularity of the first-hop net.Conn; TLS record internals are not faulted separately"],
        "level_text": "Every transport operation of each handshake path is failed in turn with every fault kind (exhaustive per path and setting); settings are sampled. Bounded-wait clause decided on a fake clock.",
        "level_note": "Which operation failed and whether Close was called is taken from the instrumented pipe's own log.",
        "technique": "fault-injection enumeration (every first-hop operation x every fault kind) + fake-clock (testing/synctest) stall scenarios generated by rapid",
        "legs": [leg("^TestC16$", 120, 4000, qshards=8), raceleg("^TestC16Stall$", 250, 15000)],
    },
}

NOT_APPLICABLE = [
    {"property_id": i, "reason": "check not built yet in this revision of /verif (planned per DESIGN.md section 10)"}
    for i in ALL_IDS if i not in PROPS
]
