"""Per-property legs (test functions, case counts, shards) and evidence metadata."""

TRUST = [
    "Go toolchain, compress/flate, crypto/sha1, encoding/json, net/http request/response parsing (standard library) are the trusted base of the oracles",
    "pgregory.net/rapid v1.3.0 generators/shrinker; a run is a function of (/repo working tree, VERIF_SEED)",
    "transports are in-process scripted net.Conn implementations, not kernel sockets",
]


def leg(test, qchecks, tchecks, qshards=4, tshards=16, bin="std", qtimeout=300, ttimeout=3600, qenv=None, tenv=None):
    return {
        "test": test,
        "bin": bin,
        "quick": {"checks": qchecks, "shards": qshards, "timeout": qtimeout, "env": qenv or {}},
        "thorough": {"checks": tchecks, "shards": tshards, "timeout": ttimeout, "env": tenv or {}},
    }


HOOK_COMMITS = ["73f4f1e"]

ALL_IDS = ["C%02d" % i for i in range(1, 21)]

PROPS = {
    "C01": {
        "title": "Message round-trip fidelity across every API, role, buffer size and chunking",
        "level": "exploration",
        "rule": "rapid-generated (writer cfg, reader cfg, write program over all write APIs incl. invalid requests and interleaved control, transport chunking, read program over all read APIs); executed writer->wire->reader of the opposite role; oracle = sent message list (types, bytes, order, count) + control payloads seen by handlers. Non-trivial = >=1 data message and (message larger than the write buffer, or split writes, or interleaved control, or compression negotiated+enabled, or chunked transport reads); distinct = distinct FNV-64 of the canonical JSON of the case.",
        "assumptions": TRUST + ["message sizes are sampled up to ~300 KB (boundary biased), not unbounded"],
        "level_text": "Bounded random exploration: tens of thousands of generated (configuration, write program, chunking, read program) cases per run, boundary-biased, judged against the list of messages the program sent. Exploration is the right level because the property quantifies over unbounded inputs and programs; nothing finite enumerates them.",
        "level_note": "Oracle is the harness's own record of what it asked the API to send; the reader under test is the library's, so symmetric writer/reader mistakes are left to C02/C03 (independent codec).",
        "technique": "property-based testing (rapid): generated write/read programs, round-trip oracle, shrinking",
        "legs": [leg("^TestC01$", 5000, 40000, qshards=8)],
    },
    "C02": {
        "title": "Everything written to the wire is well-formed RFC 6455 / RFC 7692 framing",
        "level": "exploration",
        "rule": "same generator as C01; the bytes handed to the transport are decoded by the independent strict decoder wsref (mask bit per role, minimal lengths, RSV, opcode/continuation discipline, control frames, close body), matched one-to-one and in order to the API-level messages after unmasking and RFC 7692 inflation, control frames placed between the surrounding flushes, RSV1 only if negotiated+enabled at message start; client mask keys must be fresh 4-byte draws from the connection's key source (verif hook) and the default source must be crypto/rand.Reader. Non-trivial as C01.",
        "assumptions": TRUST + ["mask key quality is reduced to: default source is crypto/rand.Reader and every frame key is a fresh draw from the configured source"],
        "level_text": "Bounded random exploration of write programs; every byte the connection hands to the transport is judged by an independent strict RFC 6455/7692 decoder and matched to the API-level messages. Exploration because the input space is unbounded.",
        "level_note": "Independent decoder wsref (self-tested on the RFC 6455 5.7 and RFC 7692 7.2.3 byte strings); compress/flate is trusted for inflation; the mask-key clause uses the verif hook (falls back to a statistical check if the tagged build fails).",
        "technique": "property-based testing (rapid): generated write programs, independent-decoder differential oracle",
        "legs": [leg("^TestC02$", 5000, 40000, qshards=8)],
    },
}

NOT_APPLICABLE = [
    {"property_id": i, "reason": "check not built yet in this revision of /verif (planned per DESIGN.md section 10)"}
    for i in ALL_IDS if i not in PROPS
]
