module verifharness

go 1.23

require (
	github.com/gorilla/websocket v0.0.0
	golang.org/x/net v0.26.0
	pgregory.net/rapid v1.3.0
)

replace github.com/gorilla/websocket => /repo
