// Package xport contains the scripted in-memory transports the harness puts
// under gorilla/websocket connections: every byte, chunk boundary, error,
// deadline call and Close is owned and logged by the harness.
package xport

import (
	"errors"
	"fmt"
	"io"
	"net"
	"runtime"
	"sync"
	"time"
)

// OpKind identifies a transport operation.
type OpKind int

const (
	OpRead OpKind = iota
	OpWrite
	OpSetDeadline
	OpSetReadDeadline
	OpSetWriteDeadline
	OpClose
)

func (k OpKind) String() string {
	return [...]string{"Read", "Write", "SetDeadline", "SetReadDeadline", "SetWriteDeadline", "Close"}[k]
}

// Op is one logged transport operation.
type Op struct {
	Kind     OpKind
	Data     []byte    // bytes read or bytes accepted by Write
	Asked    int       // len(p) of the call
	Deadline time.Time // for deadline ops
	Err      error     // error returned
}

// Fault kinds.
const (
	FaultNone    = ""
	FaultEOF     = "eof"
	FaultError   = "error"
	FaultTimeout = "timeout"
	FaultShort   = "short" // write side: accept part of the bytes, then error
	// FaultUnexpectedEOF: the transport fails with io.ErrUnexpectedEOF itself
	// (what crypto/tls reports for a truncated record).
	FaultUnexpectedEOF = "unexpected-eof"
	// FaultTemporary: a net.Error that calls itself temporary but is not a
	// timeout (EINTR / ENOBUFS style); FaultShortTemporary: the same after
	// part of the bytes were accepted.
	FaultTemporary      = "temporary"
	FaultShortTemporary = "short-temporary"
	// FaultFullErr: write side: every byte is accepted and an error is
	// returned all the same (a buffering transport whose flush failed).
	FaultFullErr = "full+error"
	// FaultShortTimeout: part of the bytes is accepted, then the deadline hits.
	FaultShortTimeout = "short-timeout"
)

// ErrInjected is the arbitrary (non-EOF, non-timeout) injected error.
var ErrInjected = errors.New("xport: injected transport error")

// TimeoutError is a net.Error with Timeout() == true.
type TimeoutError struct{}

func (TimeoutError) Error() string   { return "xport: injected i/o timeout" }
func (TimeoutError) Timeout() bool   { return true }
func (TimeoutError) Temporary() bool { return true }

// TemporaryError is a net.Error with Temporary() == true and Timeout() == false.
type TemporaryError struct{}

func (TemporaryError) Error() string   { return "xport: injected temporary failure" }
func (TemporaryError) Timeout() bool   { return false }
func (TemporaryError) Temporary() bool { return true }

// ErrTemporary is the injected temporary error value.
var ErrTemporary net.Error = TemporaryError{}

// ErrTimeout is the injected timeout error value.
var ErrTimeout net.Error = TimeoutError{}

// FaultErr maps a fault kind to its error value.
func FaultErr(kind string) error {
	switch kind {
	case FaultEOF:
		return io.EOF
	case FaultTimeout:
		return ErrTimeout
	case FaultUnexpectedEOF:
		return io.ErrUnexpectedEOF
	case FaultTemporary, FaultShortTemporary:
		return ErrTemporary
	case FaultShortTimeout:
		return ErrTimeout
	default:
		return ErrInjected
	}
}

// ReadFault describes a read-side fault: after exactly Offset bytes of the
// input have been delivered the transport reports Kind.  With WithData the
// error is returned by the same Read call that delivers the last bytes before
// the offset (if any are pending), otherwise by a separate call returning 0
// bytes.  If Resume is set the transport keeps delivering the rest of the
// input on later calls (as a real connection would after a timeout), else every
// later Read returns the same error.
type ReadFault struct {
	Offset   int    `json:"offset"`
	Kind     string `json:"kind"`
	WithData bool   `json:"with_data,omitempty"`
	Resume   bool   `json:"resume,omitempty"`
}

// WriteFault describes a write-side fault: the K-th (0-based) write-side
// operation (SetWriteDeadline, SetDeadline or Write, in call order) fails with
// Kind.  For Kind "short" on a Write, half of the bytes (rounded down) are
// accepted before ErrInjected; on a deadline call "short" behaves like "error".
type WriteFault struct {
	K    int    `json:"k"`
	Kind string `json:"kind"`
	// NextWrite: the fault fires at the next Write, however many deadline
	// calls precede it (K is ignored).
	NextWrite bool `json:"next_write,omitempty"`
}

// ScriptConn is a net.Conn whose input, chunking and failures are scripted
// and whose operations are logged.  It is safe for use by one reader
// goroutine and several writer goroutines.
type ScriptConn struct {
	mu sync.Mutex

	in     []byte
	pos    int
	chunks []int // sizes of successive reads; 0 or exhausted = as much as asked
	chunkI int
	EndErr error // returned when the input is exhausted (default io.EOF)
	// EOFWithData makes the Read that delivers the last input bytes return
	// them together with EndErr (an io.Reader may do that).
	EOFWithData bool
	rfault      *ReadFault
	rfired      bool
	rferr       error
	readN       int // number of Read calls
	TotalIn     int // bytes delivered
	// BeforeFault is the number of bytes that had been delivered by Read calls
	// strictly before the call that reported the armed fault.
	BeforeFault int

	wfault     *WriteFault
	wops       int // write-side operations so far
	wfired     bool
	wferr      error
	Wrote      []byte // all bytes accepted by Write
	AfterFault []byte // bytes offered to Write after the write fault fired

	// OnWrite, if set, sees every accepted Write (used by handshake responders).
	OnWrite func(c *ScriptConn, p []byte)

	Log    []Op
	Closed int // number of Close calls
	// HonourWriteDeadline makes Write fail with a timeout - as a fault that
	// fires at that operation - when the write deadline armed last has passed
	// (as a real connection does); FiredAtOp is the index of the write-side
	// operation at which a fault fired (-1: none).
	HonourWriteDeadline bool
	FiredAtOp           int
	curWDL              time.Time
	inWrite             bool
	// WritesNoDeadline counts the Writes made while no write deadline was armed.
	WritesNoDeadline int
	// TrackDepth makes Read record the deepest call stack (in frames, capped
	// at 1024) from which it was called.
	TrackDepth bool
	MaxDepth   int
	// Starved counts the Reads issued when every scripted input byte had been
	// delivered: on a live connection whose peer stays silent each of them
	// would block.
	Starved int
	NoLog   bool
	// SlowPeer: the peer may pause for any length of time before its next
	// bytes, so a Read issued while a read deadline is armed - by whoever -
	// times out (RDLExpired counts them).  On a connection whose application
	// sets no read deadline nothing may ever arm one.
	SlowPeer   bool
	RDLExpired int
	curRDL     time.Time
}

// NewScriptConn returns a transport that will deliver input using the chunk
// plan (nil = as asked).
func NewScriptConn(input []byte, chunks []int) *ScriptConn {
	return &ScriptConn{in: input, chunks: chunks, FiredAtOp: -1}
}

// SetInput replaces the remaining input.
func (c *ScriptConn) SetInput(b []byte, chunks []int) {
	c.mu.Lock()
	c.in, c.pos, c.chunks, c.chunkI = b, 0, chunks, 0
	c.mu.Unlock()
}

// AppendInput adds bytes to the end of the input.
func (c *ScriptConn) AppendInput(b []byte) {
	c.mu.Lock()
	c.in = append(c.in[:len(c.in):len(c.in)], b...)
	c.mu.Unlock()
}

// PrependInput inserts bytes before the unread input.
func (c *ScriptConn) PrependInput(b []byte) {
	c.mu.Lock()
	c.PrependInputLocked(b)
	c.mu.Unlock()
}

// AppendInputLocked is AppendInput for use inside an OnWrite callback.
func (c *ScriptConn) AppendInputLocked(b []byte) {
	c.in = append(c.in[:len(c.in):len(c.in)], b...)
}

// PrependInputLocked is PrependInput for use inside an OnWrite callback (the
// transport's lock is already held there).
func (c *ScriptConn) PrependInputLocked(b []byte) {
	rest := c.in[c.pos:]
	n := make([]byte, 0, len(b)+len(rest))
	n = append(n, b...)
	n = append(n, rest...)
	c.in, c.pos = n, 0
}

// RemainingLocked is Remaining for use inside an OnWrite callback.
func (c *ScriptConn) RemainingLocked() int { return len(c.in) - c.pos }

// Remaining returns the number of undelivered input bytes.
func (c *ScriptConn) Remaining() int {
	c.mu.Lock()
	defer c.mu.Unlock()
	return len(c.in) - c.pos
}

// SetReadFault arms a read fault.  Offset counts bytes delivered from now on
// plus those already delivered (absolute position in the total input).
func (c *ScriptConn) SetReadFault(f *ReadFault) {
	c.mu.Lock()
	c.rfault, c.rfired = f, false
	c.mu.Unlock()
}

// SetWriteFault arms a write fault; K counts write-side operations from now on.
func (c *ScriptConn) SetWriteFault(f *WriteFault) {
	c.mu.Lock()
	c.wfault, c.wfired, c.wops = f, false, 0
	c.mu.Unlock()
}

// ResetLog forgets the log and the written bytes (used after the handshake) and
// re-bases offsets: delivered-byte accounting restarts at zero.
func (c *ScriptConn) ResetLog() {
	c.mu.Lock()
	c.Log = nil
	c.Wrote = nil
	c.AfterFault = nil
	c.wops = 0
	c.TotalIn = 0
	c.readN = 0
	c.mu.Unlock()
}

// WriteOps returns the number of write-side operations since the last reset.
func (c *ScriptConn) WriteOps() int {
	c.mu.Lock()
	defer c.mu.Unlock()
	return c.wops
}

// WriteFaultFired reports whether the armed write fault was delivered.
func (c *ScriptConn) WriteFaultFired() bool {
	c.mu.Lock()
	defer c.mu.Unlock()
	return c.wfired
}

// ReadFaultFired reports whether the armed read fault was delivered.
func (c *ScriptConn) ReadFaultFired() bool {
	c.mu.Lock()
	defer c.mu.Unlock()
	return c.rfired
}

func (c *ScriptConn) log(op Op) {
	if !c.NoLog {
		c.Log = append(c.Log, op)
	}
}

func (c *ScriptConn) Read(p []byte) (int, error) {
	c.mu.Lock()
	defer c.mu.Unlock()
	c.readN++
	if c.TrackDepth {
		var pcs [1024]uintptr
		if d := runtime.Callers(0, pcs[:]); d > c.MaxDepth {
			c.MaxDepth = d
		}
	}
	if c.SlowPeer && !c.curRDL.IsZero() {
		// the peer takes longer over its next bytes than whatever read deadline
		// is armed: the read times out
		c.RDLExpired++
		err := FaultErr(FaultTimeout)
		c.log(Op{Kind: OpRead, Asked: len(p), Err: err})
		return 0, err
	}
	if c.rfired && !c.rfault.Resume {
		c.log(Op{Kind: OpRead, Asked: len(p), Err: c.rferr})
		return 0, c.rferr
	}
	avail := len(c.in) - c.pos
	limit := avail
	faultArmed := c.rfault != nil && !c.rfired
	if faultArmed {
		toFault := c.rfault.Offset - c.TotalIn
		if toFault < 0 {
			toFault = 0
		}
		if toFault < limit {
			limit = toFault
		}
		if limit == 0 {
			c.rfired = true
			c.BeforeFault = c.TotalIn
			c.rferr = FaultErr(c.rfault.Kind)
			c.log(Op{Kind: OpRead, Asked: len(p), Err: c.rferr})
			return 0, c.rferr
		}
	}
	if avail == 0 {
		c.Starved++
		err := c.EndErr
		if err == nil {
			err = io.EOF
		}
		c.log(Op{Kind: OpRead, Asked: len(p), Err: err})
		return 0, err
	}
	if len(p) == 0 {
		c.log(Op{Kind: OpRead})
		return 0, nil
	}
	n := len(p)
	if c.chunkI < len(c.chunks) {
		k := c.chunks[c.chunkI]
		c.chunkI++
		if k < 0 {
			// a legal, if discouraged, io.Reader behaviour: no bytes, no error
			c.log(Op{Kind: OpRead, Asked: len(p)})
			return 0, nil
		}
		if k > 0 && k < n {
			n = k
		}
	}
	if n > limit {
		n = limit
	}
	copy(p, c.in[c.pos:c.pos+n])
	c.pos += n
	c.TotalIn += n
	var err error
	if c.EOFWithData && c.pos == len(c.in) && !(faultArmed && c.rfault.Offset > c.TotalIn) {
		err = c.EndErr
		if err == nil {
			err = io.EOF
		}
	}
	if faultArmed && c.rfault.WithData && c.TotalIn == c.rfault.Offset {
		c.rfired = true
		c.BeforeFault = c.TotalIn - n
		c.rferr = FaultErr(c.rfault.Kind)
		err = c.rferr
	}
	c.log(Op{Kind: OpRead, Asked: len(p), Data: append([]byte(nil), p[:n]...), Err: err})
	return n, err
}

// writeSideFault returns the fault to apply to the current write-side op.
func (c *ScriptConn) writeSideFault() (string, bool) {
	k := c.wops
	c.wops++
	if c.inWrite && c.HonourWriteDeadline && !c.wfired && !c.curWDL.IsZero() && !time.Now().Before(c.curWDL) {
		c.wfired = true
		c.FiredAtOp = k
		c.wferr = ErrTimeout
		return FaultTimeout, true
	}
	if c.wfault != nil && !c.wfired && (k == c.wfault.K && !c.wfault.NextWrite || c.wfault.NextWrite && c.inWrite) {
		c.wfired = true
		c.FiredAtOp = k
		c.wferr = FaultErr(c.wfault.Kind)
		if c.wfault.Kind == FaultShort {
			c.wferr = ErrInjected
		}
		return c.wfault.Kind, true
	}
	return "", false
}

func (c *ScriptConn) Write(p []byte) (int, error) {
	c.mu.Lock()
	defer c.mu.Unlock()
	if c.wfired {
		// A real connection might accept more; we record what the library
		// tried to write after a failure and keep failing.
		c.AfterFault = append(c.AfterFault, p...)
		c.wops++
		c.log(Op{Kind: OpWrite, Asked: len(p), Err: c.wferr})
		return 0, c.wferr
	}
	if c.curWDL.IsZero() {
		c.WritesNoDeadline++
	}
	c.inWrite = true
	kind, hit := c.writeSideFault()
	c.inWrite = false
	if hit {
		n := 0
		if kind == FaultShort || kind == FaultShortTemporary || kind == FaultShortTimeout {
			n = len(p) / 2
			c.Wrote = append(c.Wrote, p[:n]...)
		}
		if kind == FaultFullErr {
			n = len(p)
			c.Wrote = append(c.Wrote, p...)
		}
		c.log(Op{Kind: OpWrite, Asked: len(p), Data: append([]byte(nil), p[:n]...), Err: c.wferr})
		return n, c.wferr
	}
	c.Wrote = append(c.Wrote, p...)
	c.log(Op{Kind: OpWrite, Asked: len(p), Data: append([]byte(nil), p...)})
	if c.OnWrite != nil {
		c.OnWrite(c, p)
	}
	return len(p), nil
}

func (c *ScriptConn) deadlineOp(kind OpKind, t time.Time, writeSide bool) error {
	c.mu.Lock()
	defer c.mu.Unlock()
	var err error
	if writeSide {
		if c.wfired {
			c.wops++
			// deadline calls after a failure are tolerated (nothing is written)
		} else if _, hit := c.writeSideFault(); hit {
			err = c.wferr
		}
	}
	if writeSide && err == nil {
		c.curWDL = t
	}
	if err == nil && (kind == OpSetDeadline || kind == OpSetReadDeadline) {
		c.curRDL = t
	}
	c.log(Op{Kind: kind, Deadline: t, Err: err})
	return err
}

func (c *ScriptConn) SetDeadline(t time.Time) error { return c.deadlineOp(OpSetDeadline, t, true) }
func (c *ScriptConn) SetReadDeadline(t time.Time) error {
	return c.deadlineOp(OpSetReadDeadline, t, false)
}
func (c *ScriptConn) SetWriteDeadline(t time.Time) error {
	return c.deadlineOp(OpSetWriteDeadline, t, true)
}

func (c *ScriptConn) Close() error {
	c.mu.Lock()
	defer c.mu.Unlock()
	c.Closed++
	c.log(Op{Kind: OpClose})
	return nil
}

type addr string

func (a addr) Network() string { return "script" }
func (a addr) String() string  { return string(a) }

func (c *ScriptConn) LocalAddr() net.Addr  { return addr("local") }
func (c *ScriptConn) RemoteAddr() net.Addr { return addr("remote") }

// Snapshot returns copies of the written bytes and the log.
func (c *ScriptConn) Snapshot() (wrote []byte, log []Op) {
	c.mu.Lock()
	defer c.mu.Unlock()
	return append([]byte(nil), c.Wrote...), append([]Op(nil), c.Log...)
}

// DescribeLog renders a log compactly for failure messages.
func DescribeLog(log []Op, max int) string {
	s := ""
	for i, op := range log {
		if i >= max {
			s += fmt.Sprintf(" …(+%d)", len(log)-max)
			break
		}
		switch op.Kind {
		case OpRead, OpWrite:
			s += fmt.Sprintf(" %s(%d/%d", op.Kind, len(op.Data), op.Asked)
			if op.Err != nil {
				s += "," + op.Err.Error()
			}
			s += ")"
		case OpClose:
			s += " Close"
		default:
			s += fmt.Sprintf(" %s(%v", op.Kind, !op.Deadline.IsZero())
			if op.Err != nil {
				s += "," + op.Err.Error()
			}
			s += ")"
		}
	}
	return s
}
