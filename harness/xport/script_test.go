package xport

import (
	"io"
	"testing"
)

func TestScriptConnFaults(t *testing.T) {
	c := NewScriptConn([]byte("abcdefgh"), []int{3})
	c.SetReadFault(&ReadFault{Offset: 5, Kind: FaultEOF, WithData: true})
	buf := make([]byte, 10)
	n, err := c.Read(buf)
	if n != 3 || err != nil {
		t.Fatal(n, err)
	}
	n, err = c.Read(buf)
	if n != 2 || err != io.EOF {
		t.Fatal(n, err)
	}
	n, err = c.Read(buf)
	if n != 0 || err != io.EOF {
		t.Fatal(n, err)
	}
	c = NewScriptConn([]byte("abcdefgh"), nil)
	c.SetReadFault(&ReadFault{Offset: 5, Kind: FaultTimeout, Resume: true})
	n, err = c.Read(buf)
	if n != 5 || err != nil {
		t.Fatal(n, err)
	}
	n, err = c.Read(buf)
	if n != 0 || err != ErrTimeout {
		t.Fatal(n, err)
	}
	n, err = c.Read(buf)
	if n != 3 || err != nil {
		t.Fatal(n, err)
	}
	c = NewScriptConn(nil, nil)
	c.SetWriteFault(&WriteFault{K: 1, Kind: FaultShort})
	if n, err := c.Write([]byte("abcd")); n != 4 || err != nil {
		t.Fatal(n, err)
	}
	if n, err := c.Write([]byte("efgh")); n != 2 || err == nil {
		t.Fatal(n, err)
	}
	if n, err := c.Write([]byte("ij")); n != 0 || err == nil {
		t.Fatal(n, err)
	}
	if string(c.Wrote) != "abcdef" || string(c.AfterFault) != "ij" {
		t.Fatal(string(c.Wrote), string(c.AfterFault))
	}
}
