package xport

import (
	"io"
	"net"
	"sync"
	"time"
)

// half is one direction of an in-memory pipe.
type half struct {
	mu     sync.Mutex
	buf    []byte
	closed bool
	wake   chan struct{}
}

func newHalf() *half { return &half{wake: make(chan struct{})} }

func (h *half) signal() {
	close(h.wake)
	h.wake = make(chan struct{})
}

func (h *half) write(p []byte) (int, error) {
	h.mu.Lock()
	defer h.mu.Unlock()
	if h.closed {
		return 0, io.ErrClosedPipe
	}
	h.buf = append(h.buf, p...)
	h.signal()
	return len(p), nil
}

func (h *half) close() {
	h.mu.Lock()
	if !h.closed {
		h.closed = true
		h.signal()
	}
	h.mu.Unlock()
}

// read blocks until data, close or the deadline (zero = none).
func (h *half) read(p []byte, deadline func() time.Time) (int, error) {
	for {
		h.mu.Lock()
		if len(h.buf) > 0 {
			n := copy(p, h.buf)
			h.buf = h.buf[n:]
			h.mu.Unlock()
			return n, nil
		}
		if h.closed {
			h.mu.Unlock()
			return 0, io.EOF
		}
		w := h.wake
		h.mu.Unlock()
		dl := deadline()
		if dl.IsZero() {
			<-w
			continue
		}
		d := time.Until(dl)
		if d <= 0 {
			return 0, ErrTimeout
		}
		t := time.NewTimer(d)
		select {
		case <-w:
			t.Stop()
		case <-t.C:
			return 0, ErrTimeout
		}
	}
}

// PipeEnd is one end of a Pipe.  The client end (the one handed to the
// library) is instrumented: every operation is logged with the deadlines in
// force, and a fault can be injected at the K-th operation.
type PipeEnd struct {
	in, out *half
	name    string

	mu       sync.Mutex
	Ops      []POp
	Fault    *PFault
	fired    bool
	Closed   int
	rdl, wdl time.Time
	// Stall makes Write discard nothing but Read block forever (peer silent)
	// after StallAfter operations; -1 = never.
	Instrument bool
}

// POp is one logged operation of an instrumented pipe end.
type POp struct {
	Kind          OpKind
	N             int
	Err           error
	Deadline      time.Time // argument for deadline ops
	ReadDeadline  time.Time // deadlines armed when the op started (Read/Write)
	WriteDeadline time.Time
	At            time.Time
}

// PFault injects Kind (error | timeout | eof) at operation index K.
type PFault struct {
	K    int
	Kind string
}

// NewPipe returns the two ends of an in-memory full-duplex connection.
func NewPipe() (client, peer *PipeEnd) {
	a2b, b2a := newHalf(), newHalf()
	return &PipeEnd{in: b2a, out: a2b, name: "client", Instrument: true}, &PipeEnd{in: a2b, out: b2a, name: "peer"}
}

// op logs an operation and returns the injected error, if this is the faulted one.
func (e *PipeEnd) op(kind OpKind, dl time.Time) (idx int, ferr error) {
	e.mu.Lock()
	defer e.mu.Unlock()
	idx = len(e.Ops)
	e.Ops = append(e.Ops, POp{Kind: kind, Deadline: dl, ReadDeadline: e.rdl, WriteDeadline: e.wdl, At: time.Now()})
	if e.Fault != nil && !e.fired && idx == e.Fault.K {
		e.fired = true
		ferr = FaultErr(e.Fault.Kind)
		e.Ops[idx].Err = ferr
	}
	return idx, ferr
}

func (e *PipeEnd) done(idx, n int, err error) {
	e.mu.Lock()
	e.Ops[idx].N = n
	if err != nil {
		e.Ops[idx].Err = err
	}
	e.mu.Unlock()
}

func (e *PipeEnd) Read(p []byte) (int, error) {
	if !e.Instrument {
		return e.in.read(p, func() time.Time { return time.Time{} })
	}
	idx, ferr := e.op(OpRead, time.Time{})
	if ferr != nil {
		return 0, ferr
	}
	n, err := e.in.read(p, func() time.Time {
		e.mu.Lock()
		defer e.mu.Unlock()
		return e.rdl
	})
	e.done(idx, n, err)
	return n, err
}

func (e *PipeEnd) Write(p []byte) (int, error) {
	if !e.Instrument {
		return e.out.write(p)
	}
	idx, ferr := e.op(OpWrite, time.Time{})
	if ferr != nil {
		return 0, ferr
	}
	e.mu.Lock()
	dl := e.wdl
	e.mu.Unlock()
	if !dl.IsZero() && !time.Now().Before(dl) {
		e.done(idx, 0, ErrTimeout)
		return 0, ErrTimeout
	}
	n, err := e.out.write(p)
	e.done(idx, n, err)
	return n, err
}

func (e *PipeEnd) Close() error {
	if e.Instrument {
		_, ferr := e.op(OpClose, time.Time{})
		e.mu.Lock()
		e.Closed++
		e.mu.Unlock()
		e.in.close()
		e.out.close()
		return ferr
	}
	e.in.close()
	e.out.close()
	return nil
}

func (e *PipeEnd) setDL(kind OpKind, t time.Time) error {
	if !e.Instrument {
		return nil
	}
	_, ferr := e.op(kind, t)
	if ferr != nil {
		return ferr
	}
	e.mu.Lock()
	switch kind {
	case OpSetDeadline:
		e.rdl, e.wdl = t, t
	case OpSetReadDeadline:
		e.rdl = t
	default:
		e.wdl = t
	}
	e.mu.Unlock()
	// wake a blocked reader so that it re-evaluates its deadline
	e.in.mu.Lock()
	e.in.signal()
	e.in.mu.Unlock()
	return nil
}

func (e *PipeEnd) SetDeadline(t time.Time) error      { return e.setDL(OpSetDeadline, t) }
func (e *PipeEnd) SetReadDeadline(t time.Time) error  { return e.setDL(OpSetReadDeadline, t) }
func (e *PipeEnd) SetWriteDeadline(t time.Time) error { return e.setDL(OpSetWriteDeadline, t) }
func (e *PipeEnd) LocalAddr() net.Addr                { return addr(e.name) }
func (e *PipeEnd) RemoteAddr() net.Addr               { return addr("remote-of-" + e.name) }

// State returns a snapshot of the instrumented end.
func (e *PipeEnd) State() (ops []POp, closed int, rdl, wdl time.Time, fired bool) {
	e.mu.Lock()
	defer e.mu.Unlock()
	return append([]POp(nil), e.Ops...), e.Closed, e.rdl, e.wdl, e.fired
}
