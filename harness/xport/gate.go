package xport

import (
	"errors"
	"fmt"
	"io"
	"net"
	"sync"
	"sync/atomic"
	"time"
)

// Seq is a global event counter used to order API calls and transport events
// of concurrent actors.
var Seq atomic.Int64

// GWrite is one write accepted by a GateConn.
type GWrite struct {
	Data      []byte
	Arrived   int64 // Seq when the call arrived
	Granted   int64 // Seq when it was let through
	ArrivedAt time.Time
	Deadline  time.Time
}

type gateReq struct {
	pause   bool
	data    []byte
	arrived int64
	at      time.Time
	grant   chan error
}

// GateConn is a net.Conn for concurrent actors.  When Gated, every Write
// blocks inside the transport until the scheduler grants it, so a writer can be
// held in the critical section for as long as the schedule wants.  It detects
// two goroutines being inside Write at the same time.
type GateConn struct {
	mu sync.Mutex

	Gated   bool
	pending []*gateReq
	Writes  []GWrite
	Wrote   []byte
	inside  int
	Overlap bool
	curDl   time.Time
	DlCalls int
	// DlDuringWrite describes the first SetWriteDeadline call made while a
	// Write was inside the transport ("" if none): on a net.Conn the new
	// deadline applies to that pending Write as well.
	DlDuringWrite string
	// ReadDeadlineSet describes the first SetDeadline / SetReadDeadline call.
	ReadDeadlineSet string
	// FailedAt is the number of writes that had been accepted when the
	// scheduler made a pending Write fail (-1: no failure injected); FailSeq is
	// the global stamp of that moment.
	FailedAt int
	FailSeq  int64

	in      []byte
	pos     int
	chunk   int
	closed  bool
	Closes  int
	wake    chan struct{}
	HoldEOF bool // at end of input block until Close instead of returning io.EOF

	// Yield, if > 0, makes ungated Writes call the scheduler between copying
	// halves of the buffer (free-running race leg).
	Yield func()
}

// NewGateConn returns a GateConn with the given input for the read side.
func NewGateConn(input []byte, chunk int, gated bool) *GateConn {
	return &GateConn{in: input, chunk: chunk, Gated: gated, wake: make(chan struct{}), FailedAt: -1}
}

func fmtDl(t time.Time) string {
	if t.IsZero() {
		return "none"
	}
	return t.Format("15:04:05.000")
}

var errGateClosed = errors.New("xport: use of closed connection")

func (c *GateConn) Write(p []byte) (int, error) {
	c.mu.Lock()
	if c.closed {
		c.mu.Unlock()
		return 0, errGateClosed
	}
	c.inside++
	if c.inside > 1 {
		c.Overlap = true
	}
	arrived := Seq.Add(1)
	if !c.Gated {
		// Give other goroutines a chance to barge in while this writer is
		// "inside the transport".
		c.mu.Unlock()
		if c.Yield != nil {
			c.Yield()
		}
		c.mu.Lock()
		c.accept(p, arrived, time.Now())
		c.inside--
		c.mu.Unlock()
		return len(p), nil
	}
	req := &gateReq{data: append([]byte(nil), p...), arrived: arrived, at: time.Now(), grant: make(chan error, 1)}
	c.pending = append(c.pending, req)
	c.mu.Unlock()
	err := <-req.grant
	c.mu.Lock()
	c.inside--
	if err == nil {
		c.accept(p, arrived, req.at)
	}
	c.mu.Unlock()
	if err != nil {
		return 0, err
	}
	return len(p), nil
}

func (c *GateConn) accept(p []byte, arrived int64, at time.Time) {
	c.Writes = append(c.Writes, GWrite{Data: append([]byte(nil), p...), Arrived: arrived, Granted: Seq.Add(1), ArrivedAt: at, Deadline: c.curDl})
	c.Wrote = append(c.Wrote, p...)
}

// Pending returns the number of Writes waiting inside the transport.
func (c *GateConn) Pending() int {
	c.mu.Lock()
	defer c.mu.Unlock()
	return len(c.pending)
}

// Grant lets the oldest waiting Write (or paused caller) through; false if none waits.
func (c *GateConn) Grant() bool { return c.grant(nil) }

// GrantErr makes the oldest waiting Write fail with err (a paused caller is
// simply released); false if nothing waits.
func (c *GateConn) GrantErr(err error) bool { return c.grant(err) }

func (c *GateConn) grant(err error) bool {
	c.mu.Lock()
	if len(c.pending) == 0 {
		c.mu.Unlock()
		return false
	}
	req := c.pending[0]
	c.pending = c.pending[1:]
	if req.pause {
		err = nil
	} else if err != nil && c.FailedAt < 0 {
		c.FailedAt = len(c.Writes)
		c.FailSeq = Seq.Add(1)
	}
	c.mu.Unlock()
	req.grant <- err
	return true
}

// Pause blocks the caller until the scheduler grants it (a scheduling point
// inside harness callbacks such as BufferPool.Put).  No-op when not gated.
func (c *GateConn) Pause() {
	c.mu.Lock()
	if !c.Gated || c.closed {
		c.mu.Unlock()
		return
	}
	req := &gateReq{pause: true, arrived: Seq.Add(1), at: time.Now(), grant: make(chan error, 1)}
	c.pending = append(c.pending, req)
	c.mu.Unlock()
	<-req.grant
}

func (c *GateConn) Read(p []byte) (int, error) {
	for {
		c.mu.Lock()
		if c.pos < len(c.in) {
			n := len(p)
			if c.chunk > 0 && n > c.chunk {
				n = c.chunk
			}
			if n > len(c.in)-c.pos {
				n = len(c.in) - c.pos
			}
			copy(p, c.in[c.pos:c.pos+n])
			c.pos += n
			c.mu.Unlock()
			return n, nil
		}
		if c.closed {
			c.mu.Unlock()
			return 0, errGateClosed
		}
		if !c.HoldEOF {
			c.mu.Unlock()
			return 0, io.EOF
		}
		w := c.wake
		c.mu.Unlock()
		<-w
	}
}

func (c *GateConn) Close() error {
	c.mu.Lock()
	c.Closes++
	if c.closed {
		c.mu.Unlock()
		return nil
	}
	c.closed = true
	pend := c.pending
	c.pending = nil
	close(c.wake)
	c.mu.Unlock()
	for _, r := range pend {
		r.grant <- errGateClosed
	}
	return nil
}

func (c *GateConn) SetDeadline(t time.Time) error {
	c.noteReadDeadline("SetDeadline", t)
	return c.SetWriteDeadline(t)
}
func (c *GateConn) SetReadDeadline(t time.Time) error {
	c.noteReadDeadline("SetReadDeadline", t)
	return nil
}

func (c *GateConn) noteReadDeadline(call string, t time.Time) {
	c.mu.Lock()
	if c.ReadDeadlineSet == "" {
		c.ReadDeadlineSet = fmt.Sprintf("%s(%s)", call, fmtDl(t))
	}
	c.mu.Unlock()
}

// ReadDeadlineTouched returns the first call that changed the read deadline
// ("" if none).
func (c *GateConn) ReadDeadlineTouched() string {
	c.mu.Lock()
	defer c.mu.Unlock()
	return c.ReadDeadlineSet
}
func (c *GateConn) SetWriteDeadline(t time.Time) error {
	c.mu.Lock()
	if c.inside > 0 && c.DlDuringWrite == "" && !t.Equal(c.curDl) {
		n := 0
		if len(c.pending) > 0 {
			n = len(c.pending[0].data)
		}
		c.DlDuringWrite = fmt.Sprintf("the transport's write deadline was changed from %s to %s while a Write (%d bytes) of another caller was inside the transport", fmtDl(c.curDl), fmtDl(t), n)
	}
	c.curDl = t
	c.DlCalls++
	c.mu.Unlock()
	return nil
}
func (c *GateConn) LocalAddr() net.Addr  { return addr("local") }
func (c *GateConn) RemoteAddr() net.Addr { return addr("remote") }

// DeadlineDuringWrite returns the description of the first SetWriteDeadline
// call made while a Write was inside the transport, or "".
func (c *GateConn) DeadlineDuringWrite() string {
	c.mu.Lock()
	defer c.mu.Unlock()
	return c.DlDuringWrite
}

// Snapshot returns the accepted bytes and writes.
func (c *GateConn) Snapshot() ([]byte, []GWrite, bool) {
	c.mu.Lock()
	defer c.mu.Unlock()
	return append([]byte(nil), c.Wrote...), append([]GWrite(nil), c.Writes...), c.Overlap
}
