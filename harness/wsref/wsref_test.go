package wsref

import (
	"bytes"
	"encoding/hex"
	"strings"
	"testing"
)

func unhex(s string) []byte {
	b, err := hex.DecodeString(strings.ReplaceAll(s, " ", ""))
	if err != nil {
		panic(err)
	}
	return b
}

// RFC 6455 section 5.7 examples.
func TestRFC6455Examples(t *testing.T) {
	hello := []byte("Hello")
	cases := []struct {
		name   string
		wire   string
		masked bool
		frames []Frame
	}{
		{"unmasked text", "81 05 48 65 6c 6c 6f", false, []Frame{{Fin: true, Opcode: OpText, Payload: hello}}},
		{"masked text", "81 85 37 fa 21 3d 7f 9f 4d 51 58", true, []Frame{{Fin: true, Opcode: OpText, Masked: true, Key: [4]byte{0x37, 0xfa, 0x21, 0x3d}, Payload: hello}}},
		{"fragmented", "01 03 48 65 6c 80 02 6c 6f", false, []Frame{{Opcode: OpText, Payload: []byte("Hel")}, {Fin: true, Opcode: OpCont, Payload: []byte("lo")}}},
		{"ping", "89 05 48 65 6c 6c 6f", false, []Frame{{Fin: true, Opcode: OpPing, Payload: hello}}},
		{"masked pong", "8a 85 37 fa 21 3d 7f 9f 4d 51 58", true, []Frame{{Fin: true, Opcode: OpPong, Masked: true, Key: [4]byte{0x37, 0xfa, 0x21, 0x3d}, Payload: hello}}},
	}
	for _, c := range cases {
		wire := unhex(c.wire)
		if got := EncodeFrames(c.frames); !bytes.Equal(got, wire) {
			t.Errorf("%s: encode = %x want %x", c.name, got, wire)
		}
		fr, n, err := DecodeFrames(wire, c.masked)
		if err != nil || n != len(wire) || len(fr) != len(c.frames) {
			t.Fatalf("%s: decode: %v n=%d frames=%d", c.name, err, n, len(fr))
		}
		for i := range fr {
			if !bytes.Equal(fr[i].Payload, c.frames[i].Payload) || fr[i].Opcode != c.frames[i].Opcode || fr[i].Fin != c.frames[i].Fin {
				t.Errorf("%s: frame %d mismatch", c.name, i)
			}
		}
	}
	// 256 bytes -> 16-bit length; 65536 -> 64-bit length.
	b := AppendFrame(nil, Frame{Fin: true, Opcode: OpBinary, Payload: make([]byte, 256)})
	if !bytes.Equal(b[:4], unhex("82 7e 01 00")) {
		t.Errorf("256: %x", b[:4])
	}
	b = AppendFrame(nil, Frame{Fin: true, Opcode: OpBinary, Payload: make([]byte, 65536)})
	if !bytes.Equal(b[:10], unhex("82 7f 00 00 00 00 00 01 00 00")) {
		t.Errorf("65536: %x", b[:10])
	}
	for _, n := range []int{0, 125, 126, 65535, 65536} {
		b := AppendFrame(nil, Frame{Fin: true, Opcode: OpBinary, Payload: make([]byte, n)})
		fr, used, err := DecodeFrames(b, false)
		if err != nil || used != len(b) || len(fr) != 1 || len(fr[0].Payload) != n {
			t.Errorf("len %d: %v", n, err)
		}
	}
}

func TestDecoderRejects(t *testing.T) {
	bad := []struct {
		name   string
		wire   string
		masked bool
	}{
		{"mask on server frame", "81 85 37 fa 21 3d 7f 9f 4d 51 58", false},
		{"no mask on client frame", "81 05 48 65 6c 6c 6f", true},
		{"rsv2", "a1 00", false},
		{"rsv3", "91 00", false},
		{"opcode 3", "83 00", false},
		{"opcode b", "8b 00", false},
		{"fragmented ping", "09 00", false},
		{"ping 126", "89 7e 00 7e" + strings.Repeat("00", 126), false},
		{"nonminimal 16", "82 7e 00 05 00 00 00 00 00", false},
		{"nonminimal 64", "82 7f 00 00 00 00 00 00 01 00" + strings.Repeat("00", 256), false},
		{"msb", "82 7f 80 00 00 00 00 00 00 00", false},
	}
	for _, c := range bad {
		if _, _, err := DecodeFrames(unhex(c.wire), c.masked); err == nil {
			t.Errorf("%s: accepted", c.name)
		}
	}
	// truncated frames are not errors
	fr, n, err := DecodeFrames(unhex("81 05 48 65"), false)
	if err != nil || n != 0 || len(fr) != 0 {
		t.Errorf("truncated: %v %d %d", err, n, len(fr))
	}
	// assemble rules
	mk := func(fs ...Frame) []DFrame {
		d, _, err := DecodeFrames(EncodeFrames(fs), false)
		if err != nil {
			t.Fatal(err)
		}
		return d
	}
	if _, err := Assemble(mk(Frame{Fin: true, Opcode: OpCont}), AssembleOpts{}); err == nil {
		t.Error("lone continuation accepted")
	}
	if _, err := Assemble(mk(Frame{Opcode: OpText}, Frame{Fin: true, Opcode: OpText}), AssembleOpts{}); err == nil {
		t.Error("data inside message accepted")
	}
	if _, err := Assemble(mk(Frame{Fin: true, Rsv1: true, Opcode: OpText}), AssembleOpts{}); err == nil {
		t.Error("rsv1 without negotiation accepted")
	}
	if _, err := Assemble(mk(Frame{Rsv1: true, Opcode: OpText}, Frame{Fin: true, Rsv1: true, Opcode: OpCont}), AssembleOpts{Compression: true}); err == nil {
		t.Error("rsv1 on continuation accepted")
	}
	if _, err := Assemble(mk(Frame{Fin: true, Opcode: OpClose}, Frame{Fin: true, Opcode: OpPing}), AssembleOpts{}); err == nil {
		t.Error("frame after close accepted")
	}
	ms, err := Assemble(mk(Frame{Opcode: OpText, Payload: []byte("a")}, Frame{Fin: true, Opcode: OpPing, Payload: []byte("p")}, Frame{Fin: true, Opcode: OpCont, Payload: []byte("b")}), AssembleOpts{})
	if err != nil || len(ms) != 2 || ms[0].Opcode != OpPing || !ms[0].InsideMsg || string(ms[1].Payload) != "ab" || ms[1].NFrames != 2 {
		t.Errorf("assemble: %v %+v", err, ms)
	}
}

// RFC 7692 section 7.2.3 examples.
func TestRFC7692Examples(t *testing.T) {
	for _, c := range []struct{ name, payload, want string }{
		{"7.2.3.1 one block", "f2 48 cd c9 c9 07 00", "Hello"},
		{"7.2.3.3 stored", "00 05 00 fa ff 48 65 6c 6c 6f 00", "Hello"},
		{"7.2.3.4 bfinal", "f3 48 cd c9 c9 07 00 00", "Hello"},
		{"7.2.3.5 two blocks", "f2 48 05 00 00 00 ff ff ca c9 c9 07 00", "Hello"},
	} {
		got, err := Inflate(unhex(c.payload), 1<<20)
		if err != nil || string(got) != c.want {
			t.Errorf("%s: %q %v", c.name, got, err)
		}
	}
	// Our stored producer reproduces 7.2.3.3 exactly.
	if got := DeflateMessage([]byte("Hello"), []Seg{{Kind: "stored", Len: 5}}, false, 0); !bytes.Equal(got, unhex("00 05 00 fa ff 48 65 6c 6c 6f 00")) {
		t.Errorf("stored producer: %x", got)
	}
	// Our fixed producer reproduces 7.2.3.1 exactly (literal-only fixed block + sync).
	if got := DeflateMessage([]byte("Hello"), []Seg{{Kind: "fixed", Len: 5}}, false, 0); !bytes.Equal(got, unhex("f2 48 cd c9 c9 07 00")) {
		t.Errorf("fixed producer: %x", got)
	}
}

func TestProducersRoundTrip(t *testing.T) {
	data := bytes.Repeat([]byte("abcabcabcabcxxxxxxxxxxxxxxxxxxxxxxxxxxxxxxxxxxxxxxxxxxxxxxxxxxxxxxxxxxxxxxxxxxxxxxxxxxxxxxxxxxxxxxxxxxxxxxxxxxxxxxxxxxxxxxxxxxxxxxxxxxxxxxxxxxxxxxxxxxxxxxxxxxxxxxxxxxxxxxxxxxxxxxxxxxxxxxxxxxxxxxxxxxxxxxxxxxxxxxxxxxxxxxxxxxxxxxxxxxxxxxxxxxxxxxxxxxxxxxxxxxxxxxxxxxxxxxxxxxxxxxxxxxxxxxxxxxxxxxxxxxxxxxxxxxxxxxxxxxxxxxxxxxxxxxxxx hello world \x00\xff"), 7)
	plans := [][]Seg{
		nil,
		{{Kind: "stored", Len: 10, Block: 3}},
		{{Kind: "fixed", Len: 100, Match: true}, {Kind: "stored", Len: 0}, {Kind: "flate", Len: 500, Level: 9, Chunk: 7}},
		{{Kind: "flate", Len: 1, Level: -2}, {Kind: "fixed", Len: 3000, Match: true}},
		{{Kind: "fixed", Len: 0}},
		{{Kind: "flate", Len: 0, Level: 1}},
	}
	for _, d := range [][]byte{nil, []byte("x"), data} {
		for i, p := range plans {
			z := DeflateMessage(d, p, false, 0)
			got, err := Inflate(z, 1<<20)
			if err != nil || !bytes.Equal(got, d) {
				t.Errorf("plan %d len %d: err=%v equal=%v", i, len(d), err, bytes.Equal(got, d))
			}
		}
		for lvl := -2; lvl <= 9; lvl++ {
			z := DeflateMessage(d, nil, true, lvl)
			got, err := Inflate(z, 1<<20)
			if err != nil || !bytes.Equal(got, d) {
				t.Errorf("bfinal level %d len %d: %v", lvl, len(d), err)
			}
		}
	}
}

func TestAcceptKeySample(t *testing.T) {
	if got := AcceptKey("dGhlIHNhbXBsZSBub25jZQ=="); got != "s3pPLMBiTxaQ9kYGzzhZRbK+xOo=" {
		t.Fatal(got)
	}
}

func TestHandshakeRefs(t *testing.T) {
	toks, clean := TokenList([]string{"keep-alive, Upgrade", " \tfoo "})
	if !clean || len(toks) != 3 || !HasToken(toks, "upgrade") || HasToken(toks, "upgrad") {
		t.Fatal(toks, clean)
	}
	if _, clean := TokenList([]string{"a,,b"}); clean {
		t.Fatal("empty element must be unclean")
	}
	if _, clean := TokenList([]string{"upgrade; q=1"}); clean {
		t.Fatal("junk must be unclean")
	}
	exts, clean := ParseExtensions([]string{`foo, permessage-deflate; client_max_window_bits; server_max_window_bits="10"`, `bar; x=y`})
	if !clean || len(exts) != 3 || exts[1].Name != "permessage-deflate" || exts[1].Params["server_max_window_bits"] != "10" {
		t.Fatal(exts, clean)
	}
	if _, clean := ParseExtensions([]string{`permessage-deflate; x="a b"`}); clean {
		t.Fatal("quoted non-token must be unclean")
	}
	if ValidKey("dGhlIHNhbXBsZSBub25jZQ==") != 1 || ValidKey("dGhlIHNhbXBsZSBub25jZR==") != -1 || ValidKey("dGhlIHNhbXBsZSBub25jZQ=") != 0 || ValidKey("") != 0 {
		t.Fatal("ValidKey")
	}
	r, err := ParseResponseStrict([]byte("HTTP/1.1 101 Switching Protocols\r\nUpgrade: websocket\r\nX: a b\r\n\r\nrest"))
	if err != nil || r.Code != 101 || len(r.Names) != 2 || string(r.Rest) != "rest" || r.Get("upgrade")[0] != "websocket" {
		t.Fatal(r, err)
	}
	if _, err := ParseResponseStrict([]byte("HTTP/1.1 101 X\r\nA: b\nInjected: c\r\n\r\n")); err == nil {
		t.Fatal("bare LF accepted")
	}
}
