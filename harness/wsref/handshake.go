package wsref

import (
	"crypto/sha1"
	"encoding/base64"
)

// AcceptKey computes Sec-WebSocket-Accept for a Sec-WebSocket-Key value
// (RFC 6455 section 4.2.2 step 5.4).
func AcceptKey(key string) string {
	s := sha1.Sum([]byte(key + "258EAFA5-E914-47DA-95CA-C5AB0DC85B11"))
	return base64.StdEncoding.EncodeToString(s[:])
}

func isTchar(b byte) bool {
	switch {
	case b >= '0' && b <= '9', b >= 'a' && b <= 'z', b >= 'A' && b <= 'Z':
		return true
	}
	switch b {
	case '!', '#', '$', '%', '&', '\'', '*', '+', '-', '.', '^', '_', '`', '|', '~':
		return true
	}
	return false
}

// IsToken reports whether s is a non-empty RFC 7230 token.
func IsToken(s string) bool {
	if s == "" {
		return false
	}
	for i := 0; i < len(s); i++ {
		if !isTchar(s[i]) {
			return false
		}
	}
	return true
}

func trimOWS(s string) string {
	for len(s) > 0 && (s[0] == ' ' || s[0] == '\t') {
		s = s[1:]
	}
	for len(s) > 0 && (s[len(s)-1] == ' ' || s[len(s)-1] == '\t') {
		s = s[:len(s)-1]
	}
	return s
}

// TokenList parses the field lines of a 1#token header (RFC 7230 section 7).
// clean is false if any line contains an empty element or an element that is
// not a token (the statement of the properties does not classify such lines).
func TokenList(lines []string) (tokens []string, clean bool) {
	clean = true
	for _, line := range lines {
		start := 0
		for i := 0; i <= len(line); i++ {
			if i == len(line) || line[i] == ',' {
				el := trimOWS(line[start:i])
				start = i + 1
				if !IsToken(el) {
					clean = false
					continue
				}
				tokens = append(tokens, el)
			}
		}
	}
	return tokens, clean
}

// EqualFoldASCII compares with ASCII-only case folding.
func EqualFoldASCII(a, b string) bool {
	if len(a) != len(b) {
		return false
	}
	for i := 0; i < len(a); i++ {
		x, y := a[i], b[i]
		if x >= 'A' && x <= 'Z' {
			x += 'a' - 'A'
		}
		if y >= 'A' && y <= 'Z' {
			y += 'a' - 'A'
		}
		if x != y {
			return false
		}
	}
	return true
}

// HasToken reports whether the token list contains want (ASCII case-insensitively).
func HasToken(tokens []string, want string) bool {
	for _, t := range tokens {
		if EqualFoldASCII(t, want) {
			return true
		}
	}
	return false
}

// Ext is one parsed extension offer/announcement.
type Ext struct {
	Name   string
	Params map[string]string
}

// ParseExtensions parses Sec-WebSocket-Extensions lines per RFC 6455 section
// 9.1 (extension-list = 1#extension; extension = token *( ";" param ); param =
// token [ "=" (token | quoted-string) ]).  clean is false when any line does
// not match the grammar exactly.
func ParseExtensions(lines []string) (exts []Ext, clean bool) {
	clean = true
	for _, line := range lines {
		for _, el := range splitOutsideQuotes(line, ',') {
			el = trimOWS(el)
			parts := splitOutsideQuotes(el, ';')
			name := trimOWS(parts[0])
			if !IsToken(name) {
				clean = false
				continue
			}
			e := Ext{Name: name, Params: map[string]string{}}
			ok := true
			for _, p := range parts[1:] {
				p = trimOWS(p)
				k, v, has := cutByte(p, '=')
				k = trimOWS(k)
				if !IsToken(k) {
					ok = false
					break
				}
				if has {
					v = trimOWS(v)
					if len(v) >= 2 && v[0] == '"' && v[len(v)-1] == '"' {
						uq, good := unquote(v)
						if !good || !IsToken(uq) {
							ok = false
							break
						}
						v = uq
					} else if !IsToken(v) {
						ok = false
						break
					}
				}
				e.Params[k] = v
			}
			if !ok {
				clean = false
				continue
			}
			exts = append(exts, e)
		}
	}
	return exts, clean
}

func cutByte(s string, b byte) (string, string, bool) {
	for i := 0; i < len(s); i++ {
		if s[i] == b {
			return s[:i], s[i+1:], true
		}
	}
	return s, "", false
}

func splitOutsideQuotes(s string, sep byte) []string {
	var out []string
	inq, esc := false, false
	start := 0
	for i := 0; i < len(s); i++ {
		c := s[i]
		switch {
		case esc:
			esc = false
		case inq && c == '\\':
			esc = true
		case c == '"':
			inq = !inq
		case c == sep && !inq:
			out = append(out, s[start:i])
			start = i + 1
		}
	}
	return append(out, s[start:])
}

func unquote(s string) (string, bool) {
	s = s[1 : len(s)-1]
	var out []byte
	esc := false
	for i := 0; i < len(s); i++ {
		c := s[i]
		switch {
		case esc:
			out = append(out, c)
			esc = false
		case c == '\\':
			esc = true
		case c == '"':
			return "", false
		default:
			out = append(out, c)
		}
	}
	return string(out), !esc
}

// RawResponse is a strictly parsed HTTP/1.1 response head.
type RawResponse struct {
	Proto, Status, Reason string
	Code                  int
	Names                 []string // field names in order, as written
	Values                []string
	Rest                  []byte // bytes after the blank line
}

// ParseResponseStrict parses a response head: lines end with CRLF, no bare CR
// or LF anywhere in the head, one blank line ends it.
func ParseResponseStrict(b []byte) (*RawResponse, error) {
	end := indexBytes(b, []byte("\r\n\r\n"))
	if end < 0 {
		return nil, errString("no blank line terminating the response head")
	}
	head := string(b[:end])
	r := &RawResponse{Rest: b[end+4:]}
	lines := splitCRLF(head)
	for _, l := range lines {
		for i := 0; i < len(l); i++ {
			if l[i] == '\r' || l[i] == '\n' {
				return nil, errString("bare CR or LF inside a header line: " + quoteShort(l))
			}
		}
	}
	sl := lines[0]
	p1, rest, ok := cutByte(sl, ' ')
	if !ok {
		return nil, errString("malformed status line " + quoteShort(sl))
	}
	r.Proto = p1
	code, reason, _ := cutByte(rest, ' ')
	r.Status, r.Reason = code, reason
	if len(code) != 3 {
		return nil, errString("malformed status code " + quoteShort(code))
	}
	for i := 0; i < 3; i++ {
		if code[i] < '0' || code[i] > '9' {
			return nil, errString("malformed status code " + quoteShort(code))
		}
		r.Code = r.Code*10 + int(code[i]-'0')
	}
	for _, l := range lines[1:] {
		name, val, ok := cutByte(l, ':')
		if !ok || !IsToken(name) {
			return nil, errString("malformed header line " + quoteShort(l))
		}
		r.Names = append(r.Names, name)
		r.Values = append(r.Values, trimOWS(val))
	}
	return r, nil
}

// Get returns the values of a field (ASCII case-insensitive name).
func (r *RawResponse) Get(name string) []string {
	var out []string
	for i, n := range r.Names {
		if EqualFoldASCII(n, name) {
			out = append(out, r.Values[i])
		}
	}
	return out
}

type errString string

func (e errString) Error() string { return string(e) }

func quoteShort(s string) string {
	if len(s) > 60 {
		s = s[:60] + "…"
	}
	out := make([]byte, 0, len(s)+2)
	out = append(out, '"')
	for i := 0; i < len(s); i++ {
		c := s[i]
		if c < 32 || c > 126 {
			const hex = "0123456789abcdef"
			out = append(out, '\\', 'x', hex[c>>4], hex[c&15])
		} else {
			out = append(out, c)
		}
	}
	return string(append(out, '"'))
}

func indexBytes(b, sep []byte) int {
	for i := 0; i+len(sep) <= len(b); i++ {
		j := 0
		for j < len(sep) && b[i+j] == sep[j] {
			j++
		}
		if j == len(sep) {
			return i
		}
	}
	return -1
}

func splitCRLF(s string) []string {
	var out []string
	start := 0
	for i := 0; i+1 < len(s); i++ {
		if s[i] == '\r' && s[i+1] == '\n' {
			out = append(out, s[start:i])
			start = i + 2
			i++
		}
	}
	return append(out, s[start:])
}

// ValidKey reports the status of a Sec-WebSocket-Key value: 1 = canonical
// base64 of exactly 16 bytes, 0 = clearly not base64 of 16 bytes, -1 =
// unspecified (decodes to 16 bytes only under a lenient reading: non-zero
// padding bits, embedded CR/LF).
func ValidKey(s string) int {
	const alpha = "ABCDEFGHIJKLMNOPQRSTUVWXYZabcdefghijklmnopqrstuvwxyz0123456789+/"
	idx := func(c byte) int {
		for i := 0; i < 64; i++ {
			if alpha[i] == c {
				return i
			}
		}
		return -1
	}
	for i := 0; i < len(s); i++ {
		if s[i] == '\r' || s[i] == '\n' {
			return -1
		}
	}
	if len(s) != 24 || s[22] != '=' || s[23] != '=' {
		return 0
	}
	for i := 0; i < 22; i++ {
		if idx(s[i]) < 0 {
			return 0
		}
	}
	if idx(s[21])&0x0f != 0 {
		return -1 // non-canonical trailing bits
	}
	return 1
}

// OriginHostPort extracts host[:port] from an Origin value following RFC 3986
// generic syntax: [scheme ":"] "//" authority [path] ["?" query] ["#" fragment],
// authority = [userinfo "@"] host [":" port] with the userinfo ending at the
// LAST "@", percent-escapes in the host decoded.  ok is false when the value
// has no authority component or a malformed escape.
func OriginHostPort(origin string) (hostport string, ok bool) {
	s := origin
	if i := indexAny(s, "#"); i >= 0 {
		s = s[:i]
	}
	// scheme
	if len(s) > 0 && isAlpha(s[0]) {
		i := 1
		for i < len(s) && (isAlpha(s[i]) || (s[i] >= '0' && s[i] <= '9') || s[i] == '+' || s[i] == '-' || s[i] == '.') {
			i++
		}
		if i < len(s) && s[i] == ':' {
			s = s[i+1:]
		}
	}
	if len(s) < 2 || s[0] != '/' || s[1] != '/' {
		return "", false
	}
	s = s[2:]
	if i := indexAny(s, "/?"); i >= 0 {
		s = s[:i]
	}
	for i := len(s) - 1; i >= 0; i-- {
		if s[i] == '@' {
			s = s[i+1:]
			break
		}
	}
	// percent-decode
	out := make([]byte, 0, len(s))
	for i := 0; i < len(s); i++ {
		if s[i] == '%' {
			if i+2 >= len(s) {
				return "", false
			}
			h, l := unhexNib(s[i+1]), unhexNib(s[i+2])
			if h < 0 || l < 0 {
				return "", false
			}
			out = append(out, byte(h<<4|l))
			i += 2
			continue
		}
		out = append(out, s[i])
	}
	return string(out), true
}

func unhexNib(c byte) int {
	switch {
	case c >= '0' && c <= '9':
		return int(c - '0')
	case c >= 'a' && c <= 'f':
		return int(c-'a') + 10
	case c >= 'A' && c <= 'F':
		return int(c-'A') + 10
	}
	return -1
}

func isAlpha(c byte) bool { return (c >= 'a' && c <= 'z') || (c >= 'A' && c <= 'Z') }

func indexAny(s, chars string) int {
	for i := 0; i < len(s); i++ {
		for j := 0; j < len(chars); j++ {
			if s[i] == chars[j] {
				return i
			}
		}
	}
	return -1
}

// ExtNamesLenient returns the extension names of Sec-WebSocket-Extensions
// lines under a tolerant reading: elements are separated by commas outside
// quoted-strings (with backslash escapes), and the name is the leading token
// of an element.  Text inside a quoted-string is never an extension name,
// whatever else is wrong with the line.
func ExtNamesLenient(lines []string) []string {
	var names []string
	for _, line := range lines {
		for _, el := range splitOutsideQuotes(line, ',') {
			el = trimOWS(el)
			i := 0
			for i < len(el) && isTchar(el[i]) {
				i++
			}
			if i > 0 {
				names = append(names, el[:i])
			}
		}
	}
	return names
}
