package wsref

import (
	"crypto/sha1"
	"encoding/base64"
)

// AcceptKey computes Sec-WebSocket-Accept for a Sec-WebSocket-Key value
// (RFC 6455 section 4.2.2 step 5.4).
func AcceptKey(key string) string {
	s := sha1.Sum([]byte(key + "258EAFA5-E914-47DA-95CA-C5AB0DC85B11"))
	return base64.StdEncoding.EncodeToString(s[:])
}
