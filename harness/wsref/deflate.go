package wsref

import (
	"bytes"
	"compress/flate"
	"errors"
	"fmt"
	"io"
)

// Inflate decompresses the payload of one permessage-deflate message as
// described in RFC 7692 section 7.2.2: append 00 00 ff ff and inflate.  The
// DEFLATE decoder is compress/flate (trusted base).  A stream that contains a
// BFINAL block (section 7.2.3.4) ends there.  max bounds the output size.
func Inflate(p []byte, max int) ([]byte, error) {
	in := make([]byte, 0, len(p)+4)
	in = append(in, p...)
	in = append(in, 0x00, 0x00, 0xff, 0xff)
	br := bytes.NewReader(in)
	fr := flate.NewReader(br)
	defer fr.Close()
	out, err := io.ReadAll(io.LimitReader(fr, int64(max)+1))
	if len(out) > max {
		return nil, fmt.Errorf("inflate: output exceeds %d bytes", max)
	}
	switch {
	case err == nil:
		// BFINAL block reached (or limit).
		return out, nil
	case errors.Is(err, io.ErrUnexpectedEOF) && br.Len() == 0:
		// Input exhausted without a final block: the normal RFC 7692 case.
		return out, nil
	default:
		return nil, fmt.Errorf("inflate: %w", err)
	}
}

// Seg describes how one segment of a message is deflated by the independent
// producers.  The segments of a message are concatenated; each ends on a byte
// boundary.
type Seg struct {
	// Kind: "flate" (compress/flate at Level, flushed), "stored" (hand-written
	// stored blocks of at most Block bytes; Block 0 = one block, empty blocks
	// allowed when Len==0), "fixed" (hand-written fixed-Huffman block,
	// literals plus short-distance matches when Match is set).
	Kind  string `json:"kind"`
	Len   int    `json:"len"`
	Level int    `json:"level,omitempty"`
	Block int    `json:"block,omitempty"`
	Match bool   `json:"match,omitempty"`
	// Chunk is the size of the Write calls given to compress/flate (0 = one).
	Chunk int `json:"chunk,omitempty"`
}

// DeflateMessage produces an RFC 7692 message payload for data using the given
// segment plan (segment lengths are clipped to the data; a remainder is
// emitted as one more segment of the last kind, or "stored" if there is no
// segment).  If bfinal is true the whole message is instead compressed by
// compress/flate with a final block and followed by a single 0x00 byte
// (RFC 7692 section 7.2.3.4).
func DeflateMessage(data []byte, segs []Seg, bfinal bool, level int) []byte {
	out, _ := DeflateMessageBounds(data, segs, bfinal, level)
	return out
}

// DeflateMessageBounds is DeflateMessage; bounds are the offsets in the result
// at which a segment's output ends, i.e. deflate block boundaries on a byte
// boundary (a message cut there and followed by an empty stored block inflates
// without error to a prefix of the data).
func DeflateMessageBounds(data []byte, segs []Seg, bfinal bool, level int) ([]byte, []int) {
	if bfinal {
		var buf bytes.Buffer
		fw, err := flate.NewWriter(&buf, level)
		if err != nil {
			panic(err)
		}
		fw.Write(data)
		fw.Close()
		buf.WriteByte(0x00)
		return buf.Bytes(), nil
	}
	var out []byte
	var bounds []int
	rest := data
	lastStored := false
	emit := func(s Seg, d []byte) {
		switch s.Kind {
		case "flate":
			var buf bytes.Buffer
			fw, err := flate.NewWriter(&buf, s.Level)
			if err != nil {
				panic(err)
			}
			if s.Chunk <= 0 {
				fw.Write(d)
			} else {
				for len(d) > 0 {
					n := s.Chunk
					if n > len(d) {
						n = len(d)
					}
					fw.Write(d[:n])
					d = d[n:]
				}
			}
			fw.Flush()
			out = append(out, buf.Bytes()...)
			lastStored = false
		case "fixed":
			out = append(out, fixedBlock(d, s.Match)...)
			lastStored = false
		default: // stored
			out = append(out, storedBlocks(d, s.Block)...)
			lastStored = true
		}
	}
	n := 0
	for _, s := range segs {
		l := s.Len
		if l > len(rest) {
			l = len(rest)
		}
		emit(s, rest[:l])
		bounds = append(bounds, len(out))
		rest = rest[l:]
		n++
	}
	if len(rest) > 0 || n == 0 {
		s := Seg{Kind: "stored"}
		if len(segs) > 0 {
			s = segs[len(segs)-1]
		}
		emit(s, rest)
	}
	if lastStored {
		// does not end with an empty stored block: append one.
		out = append(out, 0x00, 0x00, 0x00, 0xff, 0xff)
	}
	// flate and fixed segments end with 00 00 ff ff already (sync marker).
	if len(out) < 4 || !bytes.Equal(out[len(out)-4:], []byte{0, 0, 0xff, 0xff}) {
		panic("wsref: deflate producer did not end with an empty stored block")
	}
	res := out[:len(out)-4]
	var in []int
	for _, b := range bounds {
		if b > 0 && b < len(res) {
			in = append(in, b)
		}
	}
	return res, in
}

// storedBlocks emits d as non-final stored blocks of at most block bytes
// (block <= 0 or > 65535 means 65535).  Zero-length d emits one empty block.
func storedBlocks(d []byte, block int) []byte {
	if block <= 0 || block > 65535 {
		block = 65535
	}
	var out []byte
	for first := true; first || len(d) > 0; first = false {
		n := block
		if n > len(d) {
			n = len(d)
		}
		out = append(out, 0x00, byte(n), byte(n>>8), ^byte(n), ^byte(n>>8))
		out = append(out, d[:n]...)
		d = d[n:]
	}
	return out
}

type bitWriter struct {
	out  []byte
	acc  uint32
	nacc uint
}

func (w *bitWriter) bits(v uint32, n uint) { // LSB first
	w.acc |= v << w.nacc
	w.nacc += n
	for w.nacc >= 8 {
		w.out = append(w.out, byte(w.acc))
		w.acc >>= 8
		w.nacc -= 8
	}
}

func (w *bitWriter) huff(code uint32, n uint) { // Huffman codes are packed MSB first
	var r uint32
	for i := uint(0); i < n; i++ {
		r = r<<1 | (code>>i)&1
	}
	w.bits(r, n)
}

func (w *bitWriter) align() {
	if w.nacc > 0 {
		w.out = append(w.out, byte(w.acc))
		w.acc, w.nacc = 0, 0
	}
}

func (w *bitWriter) litlen(sym int) {
	switch {
	case sym <= 143:
		w.huff(uint32(0x30+sym), 8)
	case sym <= 255:
		w.huff(uint32(0x190+sym-144), 9)
	case sym <= 279:
		w.huff(uint32(sym-256), 7)
	default:
		w.huff(uint32(0xC0+sym-280), 8)
	}
}

var lenBase = [...]int{3, 4, 5, 6, 7, 8, 9, 10, 11, 13, 15, 17, 19, 23, 27, 31, 35, 43, 51, 59, 67, 83, 99, 115, 131, 163, 195, 227, 258}
var lenExtra = [...]uint{0, 0, 0, 0, 0, 0, 0, 0, 1, 1, 1, 1, 2, 2, 2, 2, 3, 3, 3, 3, 4, 4, 4, 4, 5, 5, 5, 5, 0}
var distBase = [...]int{1, 2, 3, 4, 5, 7, 9, 13, 17, 25, 33, 49, 65, 97, 129, 193, 257, 385, 513, 769, 1025, 1537, 2049, 3073, 4097, 6145, 8193, 12289, 16385, 24577}
var distExtra = [...]uint{0, 0, 0, 0, 1, 1, 2, 2, 3, 3, 4, 4, 5, 5, 6, 6, 7, 7, 8, 8, 9, 9, 10, 10, 11, 11, 12, 12, 13, 13}

func (w *bitWriter) match(length, dist int) {
	li := len(lenBase) - 1
	for li > 0 && lenBase[li] > length {
		li--
	}
	w.litlen(257 + li)
	w.bits(uint32(length-lenBase[li]), lenExtra[li])
	di := len(distBase) - 1
	for di > 0 && distBase[di] > dist {
		di--
	}
	w.huff(uint32(di), 5)
	w.bits(uint32(dist-distBase[di]), distExtra[di])
}

// fixedBlock emits d as one non-final fixed-Huffman block followed by a sync
// marker (empty stored block), so the result is byte aligned and ends with
// 00 00 ff ff.  With match set, repeats at distances 1..8 within the block are
// emitted as length/distance pairs.
func fixedBlock(d []byte, match bool) []byte {
	var w bitWriter
	w.bits(0, 1) // BFINAL=0
	w.bits(1, 2) // BTYPE=01
	for i := 0; i < len(d); {
		if match && i > 0 {
			bestL, bestD := 0, 0
			for dist := 1; dist <= 8 && dist <= i; dist++ {
				l := 0
				for i+l < len(d) && l < 258 && d[i+l] == d[i+l-dist] {
					l++
				}
				if l > bestL {
					bestL, bestD = l, dist
				}
			}
			if bestL >= 3 {
				w.match(bestL, bestD)
				i += bestL
				continue
			}
		}
		w.litlen(int(d[i]))
		i++
	}
	w.litlen(256) // end of block
	w.bits(0, 3)  // BFINAL=0, BTYPE=00
	w.align()
	w.out = append(w.out, 0x00, 0x00, 0xff, 0xff)
	return w.out
}
