// Package wsref is an independent reference implementation of the parts of
// RFC 6455 (framing, closing, opening handshake), RFC 7692 (permessage-deflate,
// no context takeover) and the HTTP list syntax needed to judge gorilla/websocket
// from the outside.  It is written from the RFC text and shares no code with the
// library under test.  compress/flate, crypto/sha1 and encoding/base64 from the
// standard library are the trusted base.
package wsref

import (
	"encoding/binary"
	"errors"
	"fmt"
	"unicode/utf8"
)

// Opcodes (RFC 6455 section 5.2).
const (
	OpCont   = 0x0
	OpText   = 0x1
	OpBinary = 0x2
	OpClose  = 0x8
	OpPing   = 0x9
	OpPong   = 0xA
)

// Frame is one RFC 6455 frame.  Payload is always the unmasked payload.
type Frame struct {
	Fin     bool    `json:"fin"`
	Rsv1    bool    `json:"rsv1,omitempty"`
	Rsv2    bool    `json:"rsv2,omitempty"`
	Rsv3    bool    `json:"rsv3,omitempty"`
	Opcode  byte    `json:"op"`
	Masked  bool    `json:"masked,omitempty"`
	Key     [4]byte `json:"key"`
	Payload []byte  `json:"payload,omitempty"`

	// Encoding controls (encoder only).
	// LenForm forces the length encoding: 0 = minimal, 7, 16 or 64.
	LenForm int `json:"lenform,omitempty"`
	// Claim, when non-nil, is written into the length field instead of
	// len(Payload) (hostile encodings; the payload bytes actually present
	// are still Payload).
	Claim *uint64 `json:"claim,omitempty"`
}

// IsControl reports whether the opcode is a control opcode (0x8-0xF).
func IsControl(op byte) bool { return op&0x8 != 0 }

// AppendFrame appends the wire encoding of f to dst.
func AppendFrame(dst []byte, f Frame) []byte {
	b0 := f.Opcode & 0x0f
	if f.Fin {
		b0 |= 0x80
	}
	if f.Rsv1 {
		b0 |= 0x40
	}
	if f.Rsv2 {
		b0 |= 0x20
	}
	if f.Rsv3 {
		b0 |= 0x10
	}
	n := uint64(len(f.Payload))
	if f.Claim != nil {
		n = *f.Claim
	}
	form := f.LenForm
	if form == 0 {
		switch {
		case n <= 125:
			form = 7
		case n <= 0xffff:
			form = 16
		default:
			form = 64
		}
	}
	var b1 byte
	if f.Masked {
		b1 = 0x80
	}
	switch form {
	case 7:
		dst = append(dst, b0, b1|byte(n&0x7f))
	case 16:
		dst = append(dst, b0, b1|126, byte(n>>8), byte(n))
	default:
		dst = append(dst, b0, b1|127)
		var l [8]byte
		binary.BigEndian.PutUint64(l[:], n)
		dst = append(dst, l[:]...)
	}
	if f.Masked {
		dst = append(dst, f.Key[:]...)
		start := len(dst)
		dst = append(dst, f.Payload...)
		for i := start; i < len(dst); i++ {
			dst[i] ^= f.Key[(i-start)&3]
		}
	} else {
		dst = append(dst, f.Payload...)
	}
	return dst
}

// EncodeFrames concatenates the encodings of the frames.
func EncodeFrames(frames []Frame) []byte {
	var out []byte
	for _, f := range frames {
		out = AppendFrame(out, f)
	}
	return out
}

// DFrame is a decoded frame with its position in the stream.
type DFrame struct {
	Frame
	Off int // offset of the first header byte
	End int // offset just after the last payload byte
	// HdrLen is the header length in bytes (2..14).
	HdrLen int
}

// FrameError is a framing violation found by the strict decoder.
type FrameError struct {
	Off int
	Msg string
}

func (e *FrameError) Error() string { return fmt.Sprintf("frame at offset %d: %s", e.Off, e.Msg) }

// DecodeFrames strictly decodes the complete frames contained in b as sent by
// an endpoint that must (expectMasked) or must not mask.  It returns the
// frames, the number of bytes consumed by complete frames and the bytes of an
// incomplete trailing frame (tail = b[consumed:]).  Any RFC 6455 section 5.2
// violation of a frame header is an error: mask bit wrong for the role,
// RSV2/RSV3 set, reserved opcode, non-minimal length encoding, 64-bit length
// with the most significant bit set, fragmented or >125-byte control frame.
// RSV1 is reported in the frame and judged by Assemble.
func DecodeFrames(b []byte, expectMasked bool) (frames []DFrame, consumed int, err error) {
	off := 0
	for off < len(b) {
		f, n, e := decodeOne(b[off:], off, expectMasked)
		if e != nil {
			return frames, off, e
		}
		if n == 0 { // incomplete
			break
		}
		frames = append(frames, f)
		off += n
	}
	return frames, off, nil
}

func decodeOne(b []byte, base int, expectMasked bool) (DFrame, int, error) {
	var f DFrame
	if len(b) < 2 {
		return f, 0, nil
	}
	f.Off = base
	f.Fin = b[0]&0x80 != 0
	f.Rsv1 = b[0]&0x40 != 0
	f.Rsv2 = b[0]&0x20 != 0
	f.Rsv3 = b[0]&0x10 != 0
	f.Opcode = b[0] & 0x0f
	f.Masked = b[1]&0x80 != 0
	if f.Rsv2 || f.Rsv3 {
		return f, 0, &FrameError{base, "RSV2/RSV3 set"}
	}
	switch f.Opcode {
	case OpCont, OpText, OpBinary, OpClose, OpPing, OpPong:
	default:
		return f, 0, &FrameError{base, fmt.Sprintf("reserved opcode %#x", f.Opcode)}
	}
	if f.Masked != expectMasked {
		return f, 0, &FrameError{base, fmt.Sprintf("mask bit %v, role requires %v", f.Masked, expectMasked)}
	}
	l7 := b[1] & 0x7f
	hdr := 2
	var n uint64
	switch {
	case l7 <= 125:
		n = uint64(l7)
	case l7 == 126:
		if len(b) < 4 {
			return f, 0, nil
		}
		n = uint64(binary.BigEndian.Uint16(b[2:4]))
		hdr = 4
		if n <= 125 {
			return f, 0, &FrameError{base, "non-minimal 16-bit length"}
		}
	default:
		if len(b) < 10 {
			return f, 0, nil
		}
		n = binary.BigEndian.Uint64(b[2:10])
		hdr = 10
		if n>>63 != 0 {
			return f, 0, &FrameError{base, "64-bit length with most significant bit set"}
		}
		if n <= 0xffff {
			return f, 0, &FrameError{base, "non-minimal 64-bit length"}
		}
	}
	if IsControl(f.Opcode) {
		if !f.Fin {
			return f, 0, &FrameError{base, "fragmented control frame"}
		}
		if n > 125 {
			return f, 0, &FrameError{base, "control frame payload > 125"}
		}
	}
	if f.Masked {
		if len(b) < hdr+4 {
			return f, 0, nil
		}
		copy(f.Key[:], b[hdr:hdr+4])
		hdr += 4
	}
	if uint64(len(b)-hdr) < n {
		return f, 0, nil
	}
	f.HdrLen = hdr
	f.Payload = make([]byte, n)
	copy(f.Payload, b[hdr:hdr+int(n)])
	if f.Masked {
		for i := range f.Payload {
			f.Payload[i] ^= f.Key[i&3]
		}
	}
	f.End = base + hdr + int(n)
	return f, hdr + int(n), nil
}

// WireMsg is one message (data or control) assembled from frames.
type WireMsg struct {
	Opcode     byte   // OpText, OpBinary, OpClose, OpPing, OpPong
	Payload    []byte // concatenated unmasked frame payloads (NOT inflated)
	Compressed bool   // RSV1 was set on the first frame
	FirstFrame int    // index of the first frame in the frame list
	LastFrame  int    // index of the last frame
	NFrames    int    // number of data frames (1 for control)
	// InsideMsg is true for a control frame that sits between the fragments
	// of a data message.
	InsideMsg bool
	// Complete is false for a trailing data message whose final frame is missing.
	Complete bool
}

// AssembleOpts configures Assemble.
type AssembleOpts struct {
	// Compression is true if permessage-deflate was negotiated (RSV1 allowed on
	// the first frame of a data message).
	Compression bool
	// CheckCloseBody validates close frame bodies (length != 1, status code a
	// conformant endpoint may put on the wire, UTF-8 reason).
	CheckCloseBody bool
}

// ValidWireCloseCode reports whether an endpoint may send the close code in a
// close frame (RFC 6455 section 7.4).
func ValidWireCloseCode(code int) bool {
	switch {
	case code >= 1000 && code <= 1003:
		return true
	case code >= 1007 && code <= 1014:
		return true
	case code >= 3000 && code <= 4999:
		return true
	}
	return false
}

// Assemble groups frames into messages and checks the RFC 6455 section 5.4
// fragmentation rules: a data message is one text/binary frame followed only by
// continuation frames with FIN exactly on the last; control frames may be
// interleaved; RSV1 only on the first frame of a data message and only if
// compression was negotiated; nothing follows a close frame.
// Control messages appear in the result at the position of their frame, i.e. a
// control frame inside a fragmented message precedes that message in the
// result (the data message is placed where it completes).
func Assemble(frames []DFrame, o AssembleOpts) ([]WireMsg, error) {
	var out []WireMsg
	var cur *WireMsg
	closed := false
	for i, f := range frames {
		if closed {
			return out, &FrameError{f.Off, "frame after close frame"}
		}
		if IsControl(f.Opcode) {
			if f.Rsv1 {
				return out, &FrameError{f.Off, "RSV1 on control frame"}
			}
			m := WireMsg{Opcode: f.Opcode, Payload: f.Payload, FirstFrame: i, LastFrame: i, NFrames: 1, InsideMsg: cur != nil, Complete: true}
			if f.Opcode == OpClose {
				closed = true
				if o.CheckCloseBody {
					if err := CheckCloseBody(f.Payload); err != nil {
						return out, &FrameError{f.Off, err.Error()}
					}
				}
			}
			out = append(out, m)
			continue
		}
		if f.Opcode == OpCont {
			if cur == nil {
				return out, &FrameError{f.Off, "continuation frame with no message in progress"}
			}
			if f.Rsv1 {
				return out, &FrameError{f.Off, "RSV1 on continuation frame"}
			}
			cur.Payload = append(cur.Payload, f.Payload...)
			cur.NFrames++
			cur.LastFrame = i
		} else {
			if cur != nil {
				return out, &FrameError{f.Off, "new data frame inside unfinished message"}
			}
			if f.Rsv1 && !o.Compression {
				return out, &FrameError{f.Off, "RSV1 set but permessage-deflate not negotiated"}
			}
			cur = &WireMsg{Opcode: f.Opcode, Payload: append([]byte(nil), f.Payload...), Compressed: f.Rsv1, FirstFrame: i, LastFrame: i, NFrames: 1}
		}
		if f.Fin {
			cur.Complete = true
			out = append(out, *cur)
			cur = nil
		}
	}
	if cur != nil {
		out = append(out, *cur)
	}
	return out, nil
}

// CheckCloseBody validates the body of a close frame.
func CheckCloseBody(p []byte) error {
	if len(p) == 0 {
		return nil
	}
	if len(p) == 1 {
		return errors.New("close body of 1 byte")
	}
	code := int(binary.BigEndian.Uint16(p))
	if !ValidWireCloseCode(code) {
		return fmt.Errorf("close code %d must not appear on the wire", code)
	}
	if !utf8.Valid(p[2:]) {
		return errors.New("close reason is not UTF-8")
	}
	return nil
}

// CloseBody builds a close frame body.
func CloseBody(code int, reason string) []byte {
	b := make([]byte, 2+len(reason))
	binary.BigEndian.PutUint16(b, uint16(code))
	copy(b[2:], reason)
	return b
}

// ParseCloseBody splits a close body; code 1005 for an empty body.
func ParseCloseBody(p []byte) (code int, reason string) {
	if len(p) < 2 {
		return 1005, ""
	}
	return int(binary.BigEndian.Uint16(p)), string(p[2:])
}
