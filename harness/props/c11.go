//go:build go1.25

package props

import (
	"bytes"
	"errors"
	"fmt"
	"net"
	"runtime"
	"sync"
	"testing"
	"testing/synctest"
	"time"

	"github.com/gorilla/websocket"
	"pgregory.net/rapid"

	"verifharness/wsref"
	"verifharness/xport"
)

// CtlActor is a goroutine that calls WriteControl once.
type CtlActor struct {
	MT  int `json:"mt"`  // 9 ping, 10 pong, 8 close
	Len int `json:"len"` // payload length (>= 6)
	// DeadlineMs: 0 = zero deadline (no timeout); n > 0 = n ms after the start.
	DeadlineMs int `json:"deadline_ms"`
}

// SAct is one scheduler action: start an actor, grant the oldest transport
// Write, let fake time pass, or Close the connection.
type SAct struct {
	Kind string `json:"kind"` // start | grant | sleep | close
	Arg  int    `json:"arg,omitempty"`
}

// ConcCase is a population of concurrent actors on one connection.
type ConcCase struct {
	W     ConnCfg    `json:"cfg"`
	Steps []WStep    `json:"steps"`
	Ctl   []CtlActor `json:"ctl"`
	// Pings: payload lengths of the pings the peer sends (reader replies with pongs).
	Pings []int `json:"pings,omitempty"`
	// PeerClose: 0 none; else the peer ends its stream with a close frame of that code.
	PeerClose int    `json:"peer_close,omitempty"`
	Sched     []SAct `json:"sched"`
	// Free: free-running goroutines (race-detector leg) instead of an owned schedule.
	Free bool `json:"free,omitempty"`
	// PeerViolation: the peer's stream ends with a framing violation (RSV2)
	// instead of a close; the reader must answer with a 1002 close.
	PeerViolation bool `json:"peer_violation,omitempty"`
	// PeerBig: the reader has SetReadLimit(4) and the peer's stream ends with
	// a 10-byte message: the reader answers with a 1009 close (from the
	// reader's goroutine, while the writer may be in the middle of a message).
	PeerBig bool `json:"peer_big,omitempty"`
	// ReaderLast: the reader is started only after every write-side actor has
	// returned, so nothing competes with its replies for the connection.
	ReaderLast bool `json:"reader_last,omitempty"`
}

func genConcCase(t *rapid.T, free bool) ConcCase {
	var c ConcCase
	c.Free = free
	c.W.Server = rapid.Bool().Draw(t, "server")
	c.W.WriteBuf = rapid.SampledFrom([]int{0, 125, 126, 200, 1024}).Draw(t, "wbuf")
	c.W.Compress = rapid.Bool().Draw(t, "compress")
	c.W.Pool = rapid.Bool().Draw(t, "pool")
	c.Steps = genWriteProgram(t, c.W.EffWriteBuf(), WGenOpts{MaxSteps: 5, AllowHuge: false, AllowBad: true, AllowClose: true, AllowCtl: true})
	for i := range c.Steps {
		if c.Steps[i].Op == "json" && c.Steps[i].JSON == unencodableJSON {
			c.Steps[i].JSON = `"x"` // wire attribution of a failed WriteJSON needs the sequential transport
		}
	}
	n := rapid.IntRange(0, 3).Draw(t, "nctl")
	for i := 0; i < n; i++ {
		a := CtlActor{MT: rapid.SampledFrom([]int{9, 10, 9, 10, 8}).Draw(t, "cmt"), Len: rapid.IntRange(6, 125).Draw(t, "clen")}
		if !free {
			a.DeadlineMs = rapid.SampledFrom([]int{0, 0, 1, 50, 500, 3000}).Draw(t, "cdl")
		}
		c.Ctl = append(c.Ctl, a)
	}
	if !free {
		// short application write deadlines (on the fake clock they pass while
		// the writer waits for the connection): they bound the transport write,
		// not the writer's place in the queue, and losing a frame to them while
		// later ones are accepted would tear the message
		for i := range c.Steps {
			if c.Steps[i].Op == "deadline" && rapid.Bool().Draw(t, "short_write_deadline") {
				c.Steps[i].DeadlineMs = rapid.SampledFrom([]int{1, 50, 500}).Draw(t, "write_deadline_ms")
			}
		}
		if len(c.Steps) > 1 && rapid.IntRange(0, 2).Draw(t, "leading_short_deadline") == 0 {
			c.Steps = append([]WStep{{Op: "deadline", DeadlineMs: rapid.SampledFrom([]int{1, 50, 500}).Draw(t, "write_deadline_ms0")}}, c.Steps...)
		}
	}
	c.Pings = rapid.SliceOfN(rapid.IntRange(4, 125), 0, 3).Draw(t, "pings")
	switch rapid.IntRange(0, 5).Draw(t, "peerclose") {
	case 0:
		c.PeerClose = rapid.SampledFrom([]int{1000, 1001, 4000}).Draw(t, "peerclose_code")
	case 1:
		c.PeerBig = true
	case 2:
		c.PeerViolation = true
	}
	nact := 2 + len(c.Ctl)
	c.Sched = rapid.SliceOfN(rapid.Custom(func(t *rapid.T) SAct {
		switch rapid.IntRange(0, 9).Draw(t, "akind") {
		case 0, 1, 2:
			return SAct{Kind: "start", Arg: rapid.IntRange(0, nact-1).Draw(t, "actor")}
		case 3, 4, 5, 6:
			return SAct{Kind: "grant"}
		case 7, 8:
			return SAct{Kind: "sleep", Arg: rapid.SampledFrom([]int{1, 49, 50, 51, 600, 1100}).Draw(t, "ms")}
		default:
			if rapid.IntRange(0, 3).Draw(t, "reallyclose") == 0 {
				return SAct{Kind: "close"}
			}
			return SAct{Kind: "grant"}
		}
	}), 0, 30).Draw(t, "sched")
	return c
}

func ctlPayload(i, n int) []byte {
	p := []byte(fmt.Sprintf("C%d:", i))
	for len(p) < n {
		p = append(p, byte('a'+len(p)%26))
	}
	return p[:max(n, 3)]
}

func pingPayload(i, n int) []byte {
	p := []byte(fmt.Sprintf("P%d:", i))
	for len(p) < n {
		p = append(p, byte('A'+len(p)%26))
	}
	return p
}

type ctlResult struct {
	started  bool
	done     bool
	startSeq int64
	endSeq   int64
	start    time.Time
	end      time.Time
	deadline time.Time
	err      error
	payload  []byte
	panicked interface{}
}

type concRun struct {
	gc                       *xport.GateConn
	tw                       *WTrace
	ctl                      []*ctlResult
	writerDone, readerDone   bool
	writerPanic, readerPanic interface{}
	readerErr                error
	appClosed                bool
	closeSeq                 int64
	stuck                    string
}

var concT *testing.T // the *testing.T of the running test (synctest needs it)

func checkC11(c ConcCase, o *Obs) error {
	var run *concRun
	var err error
	if c.Free {
		run, err = runConcFree(c)
	} else {
		synctest.Test(concT, func(*testing.T) {
			run, err = runConcOwned(c)
		})
	}
	if err != nil {
		return err
	}
	if rep, grew := raceLogGrew(); grew {
		return fmt.Errorf("DATA RACE reported by the race detector during this case:\n%s", rep)
	}
	return judgeConc(c, run, o)
}

func concInput(c ConcCase) []byte {
	masked := c.W.Server
	var in []byte
	for i, n := range c.Pings {
		in = wsref.AppendFrame(in, wsref.Frame{Fin: true, Opcode: wsref.OpPing, Masked: masked, Key: [4]byte{byte(i), 2, 3, 4}, Payload: pingPayload(i, n)})
	}
	if c.PeerViolation {
		in = wsref.AppendFrame(in, wsref.Frame{Fin: true, Rsv2: true, Opcode: wsref.OpText, Masked: masked, Key: [4]byte{6, 6, 6, 6}, Payload: []byte("x")})
	} else if c.PeerBig {
		in = wsref.AppendFrame(in, wsref.Frame{Fin: true, Opcode: wsref.OpBinary, Masked: masked, Key: [4]byte{5, 5, 5, 5}, Payload: []byte("0123456789")})
	} else if c.PeerClose != 0 {
		in = wsref.AppendFrame(in, wsref.Frame{Fin: true, Opcode: wsref.OpClose, Masked: masked, Key: [4]byte{7, 7, 7, 7}, Payload: wsref.CloseBody(c.PeerClose, "")})
	}
	return in
}

func (r *concRun) actors(c ConcCase, conn *websocket.Conn, base time.Time, steps []WStep) []func() {
	var acts []func()
	acts = append(acts, func() { // writer
		defer func() {
			if p := recover(); p != nil {
				r.writerPanic = p
			}
			r.writerDone = true
		}()
		r.tw = RunWriteHooked(conn, nil, steps, c.W.Compress, c.W.Server, nil, nil)
	})
	acts = append(acts, func() { // reader
		defer func() {
			if p := recover(); p != nil {
				r.readerPanic = p
			}
			r.readerDone = true
		}()
		for i := 0; i < 100; i++ {
			if _, _, err := conn.NextReader(); err != nil {
				r.readerErr = err
				return
			}
		}
	})
	for i := range c.Ctl {
		a := c.Ctl[i]
		res := &ctlResult{payload: ctlPayload(i, a.Len)}
		if a.MT == 8 {
			res.payload = wsref.CloseBody(1000, string(ctlPayload(i, a.Len-2)))
		}
		if a.DeadlineMs > 0 {
			res.deadline = base.Add(time.Duration(a.DeadlineMs) * time.Millisecond)
		}
		r.ctl = append(r.ctl, res)
		acts = append(acts, func() {
			defer func() {
				if p := recover(); p != nil {
					res.panicked = p
				}
				res.end = time.Now()
				res.endSeq = xport.Seq.Add(1)
				res.done = true
			}()
			res.started = true
			res.start = time.Now()
			res.startSeq = xport.Seq.Add(1)
			res.err = conn.WriteControl(a.MT, res.payload, res.deadline)
		})
	}
	return acts
}

func runConcOwned(c ConcCase) (*concRun, error) {
	r := &concRun{}
	base := time.Now()
	gc := xport.NewGateConn(concInput(c), 0, true)
	gc.HoldEOF = true
	r.gc = gc
	var pool websocket.BufferPool
	if c.W.Pool {
		pool = &pausePool{gc: gc}
	}
	conn, err := NewConnOver(c.W, pool, gc)
	if err != nil {
		return nil, err
	}
	steps, _ := steerWriteProgram("C11", c.W, c.Steps)
	if c.PeerBig && !c.PeerViolation {
		conn.SetReadLimit(4)
	}
	acts := r.actors(c, conn, base, steps)
	started := make([]bool, len(acts))
	start := func(i int) {
		if !started[i] {
			started[i] = true
			go acts[i]()
		}
	}
	for _, a := range c.Sched {
		switch a.Kind {
		case "start":
			if c.ReaderLast && a.Arg%len(acts) == 1 {
				break
			}
			start(a.Arg % len(acts))
		case "grant":
			gc.Grant()
		case "fail":
			gc.GrantErr(xport.ErrInjected)
		case "sleep":
			time.Sleep(time.Duration(a.Arg) * time.Millisecond)
		case "close":
			if !r.appClosed {
				r.appClosed = true
				r.closeSeq = xport.Seq.Add(1)
				conn.Close()
			}
		}
		synctest.Wait()
	}
	for i := range acts {
		if c.ReaderLast && i == 1 {
			continue
		}
		start(i)
	}
	writersDone := func() bool {
		if !r.writerDone {
			return false
		}
		for _, cr := range r.ctl {
			if !cr.done {
				return false
			}
		}
		return true
	}
	idle := 0
	for iter := 0; iter < 100000; iter++ {
		synctest.Wait()
		if writersDone() {
			break
		}
		if gc.Grant() {
			idle = 0
			continue
		}
		idle++
		if idle > 40 { // 20 s of fake time with nothing to grant
			r.stuck = "a write-side caller never returned although every transport write was granted and 20 s (fake clock) passed"
			break
		}
		time.Sleep(500 * time.Millisecond)
	}
	if c.ReaderLast {
		start(1)
	}
	// let the reader's pending replies through, then end the connection
	for iter := 0; iter < 1000; iter++ {
		synctest.Wait()
		if !gc.Grant() {
			break
		}
	}
	gc.Close()
	synctest.Wait()
	time.Sleep(3 * time.Second) // lets best-effort handler writes time out
	synctest.Wait()
	if r.stuck == "" && !r.readerDone {
		r.stuck = "the reader never returned after the connection was closed"
	}
	if r.stuck != "" {
		// goroutines are blocked inside the library: the bubble cannot be left
		failHard(errors.New("C11: " + r.stuck))
	}
	return r, nil
}

// pausePool makes BufferPool.Get/Put scheduling points of the owned schedule:
// the caller is held until the scheduler grants it, so other actors can be run
// "right after the connection released its buffer".
type pausePool struct {
	inner lockedPool
	gc    *xport.GateConn
}

func (p *pausePool) Get() interface{}  { p.gc.Pause(); return p.inner.Get() }
func (p *pausePool) Put(v interface{}) { p.gc.Pause(); p.inner.Put(v) }

// lockedPool is a mutex-guarded LIFO pool for concurrent legs.
type lockedPool struct {
	mu    sync.Mutex
	items []interface{}
}

func (p *lockedPool) Get() interface{} {
	p.mu.Lock()
	defer p.mu.Unlock()
	if n := len(p.items); n > 0 {
		v := p.items[n-1]
		p.items = p.items[:n-1]
		return v
	}
	return nil
}
func (p *lockedPool) Put(v interface{}) {
	p.mu.Lock()
	p.items = append(p.items, v)
	p.mu.Unlock()
}

func runConcFree(c ConcCase) (*concRun, error) {
	r := &concRun{}
	base := time.Now()
	gc := xport.NewGateConn(concInput(c), 7, false)
	gc.Yield = runtime.Gosched
	r.gc = gc
	var pool websocket.BufferPool
	if c.W.Pool {
		pool = &lockedPool{}
	}
	conn, err := NewConnOver(c.W, pool, gc)
	if err != nil {
		return nil, err
	}
	steps, _ := steerWriteProgram("C11", c.W, c.Steps)
	if c.PeerBig && !c.PeerViolation {
		conn.SetReadLimit(4)
	}
	acts := r.actors(c, conn, base, steps)
	var wg sync.WaitGroup
	order := make([]int, 0, len(acts))
	seen := map[int]bool{}
	for _, a := range c.Sched {
		if a.Kind == "start" && !seen[a.Arg%len(acts)] {
			seen[a.Arg%len(acts)] = true
			order = append(order, a.Arg%len(acts))
		}
	}
	for i := range acts {
		if !seen[i] {
			order = append(order, i)
		}
	}
	closeAt := -1
	for i, a := range c.Sched {
		if a.Kind == "close" {
			closeAt = i % (len(acts) + 1)
			break
		}
	}
	for k, i := range order {
		if k == closeAt {
			wg.Add(1)
			go func() {
				defer wg.Done()
				runtime.Gosched()
				r.appClosed = true
				conn.Close()
			}()
		}
		wg.Add(1)
		f := acts[i]
		go func() { defer wg.Done(); f() }()
	}
	done := make(chan struct{})
	go func() { wg.Wait(); close(done) }()
	select {
	case <-done:
	case <-time.After(60 * time.Second):
		failHard(errors.New("C11: free-running actors did not finish within 60 s (a caller never returned)"))
	}
	return r, nil
}

func isTimeout(err error) bool {
	var ne net.Error
	return errors.As(err, &ne) && ne.Timeout()
}

func judgeConc(c ConcCase, r *concRun, o *Obs) error {
	if r.writerPanic != nil {
		return fmt.Errorf("writer goroutine panicked: %v", r.writerPanic)
	}
	if r.readerPanic != nil {
		return fmt.Errorf("reader goroutine panicked: %v", r.readerPanic)
	}
	for i, cr := range r.ctl {
		if cr.panicked != nil {
			return fmt.Errorf("WriteControl caller %d panicked: %v", i, cr.panicked)
		}
	}
	wrote, writes, overlap := r.gc.Snapshot()
	failedAt, failSeq := r.gc.FailedAt, r.gc.FailSeq
	if failedAt >= 0 {
		// C10 under concurrency: after a transport write failed nothing more is
		// written and every later (or queued) write-side call fails
		if len(writes) > failedAt {
			return fmt.Errorf("a transport write failed, yet %d more writes reached the transport afterwards (first: %s) - not fail-stop under this schedule", len(writes)-failedAt, abbrev(writes[failedAt].Data))
		}
		if r.tw != nil {
			for _, cl := range r.tw.Calls {
				if cl.StartSeq > failSeq && isMessageLevel(cl.API) && cl.Err == nil {
					return fmt.Errorf("step %d %s started after a transport write had failed and succeeded", cl.Step, cl.API)
				}
			}
		}
		for i, cr := range r.ctl {
			if cr.startSeq > failSeq && cr.err == nil {
				return fmt.Errorf("WriteControl caller %d started after a transport write had failed and succeeded", i)
			}
		}
		r.appClosed = true // from here on only the lenient (prefix) wire rules apply
	}
	if isTimeout(r.readerErr) {
		// nobody sets a read deadline here: the only timeouts around are those of
		// write-side calls that waited for the connection (the handlers' best-effort
		// replies included), and those are not the reader's business
		return fmt.Errorf("the reading goroutine stopped with a timeout error (%v) although no read deadline was ever set: a reply that timed out waiting for the connection poisoned the read side", r.readerErr)
	}
	if call := r.gc.ReadDeadlineTouched(); call != "" {
		return fmt.Errorf("%s was called on the transport although nobody in this scenario sets a read deadline: a write call changed the reading goroutine's deadline", call)
	}
	if dlDuring := r.gc.DeadlineDuringWrite(); dlDuring != "" {
		return fmt.Errorf("%s: that frame is no longer written under the deadline last given to SetWriteDeadline (on a net.Conn the pending Write now fails at the foreign deadline and poisons the connection)", dlDuring)
	}
	if overlap {
		return errors.New("two goroutines were inside the transport's Write at the same time: frame writes are not serialised")
	}
	frames, consumed, derr := wsref.DecodeFrames(wrote, !c.W.Server)
	if derr != nil {
		return fmt.Errorf("bytes on the wire are not a sequence of whole frames (frames interleaved?): %v", derr)
	}
	if consumed != len(wrote) && !r.appClosed {
		return fmt.Errorf("wire ends with an incomplete frame (%d stray bytes)", len(wrote)-consumed)
	}
	msgs, aerr := wsref.Assemble(frames, wsref.AssembleOpts{Compression: c.W.Compress})
	if aerr != nil {
		return fmt.Errorf("wire violates message framing (a control frame split a frame, or frames after close): %v", aerr)
	}
	closeIdx := -1
	var closeGranted int64
	for i, f := range frames {
		if f.Opcode == wsref.OpClose {
			closeIdx = i
			// find the write that carried the end of this frame
			off := 0
			for _, w := range writes {
				off += len(w.Data)
				if off >= f.End {
					closeGranted = w.Granted
					break
				}
			}
			break
		}
	}

	// what must / may be on the wire
	type want struct {
		payload []byte
		op      byte
	}
	var must []want
	var mustDeadline []time.Time // per must entry: deadline by which the frame must have reached the transport (zero = none)
	var mustActor []int
	var may []want
	var mustNot []want
	var sentData []Sent
	if r.tw != nil {
		for _, s := range r.tw.Sent {
			if s.Bad {
				continue
			}
			if s.Control {
				if s.Reported {
					must = append(must, want{s.Payload, byte(s.MT)})
					mustDeadline = append(mustDeadline, time.Time{})
					mustActor = append(mustActor, -1)
				} else {
					may = append(may, want{s.Payload, byte(s.MT)})
				}
			} else {
				sentData = append(sentData, s)
			}
		}
	}
	for i, cr := range r.ctl {
		a := c.Ctl[i]
		w := want{cr.payload, byte(a.MT)}
		switch {
		case cr.err == nil:
			must = append(must, w)
			mustDeadline = append(mustDeadline, cr.deadline)
			mustActor = append(mustActor, i)
		default:
			mustNot = append(mustNot, w)
			switch {
			case isTimeout(cr.err):
				if cr.deadline.IsZero() {
					return fmt.Errorf("WriteControl caller %d with a zero deadline returned a timeout", i)
				}
				// by the deadline - or at once if the call was made after it
				if cr.end.After(cr.deadline) && cr.end.After(cr.start) {
					return fmt.Errorf("WriteControl caller %d returned its timeout %v after the deadline", i, cr.end.Sub(cr.deadline))
				}
			case errors.Is(cr.err, websocket.ErrCloseSent):
				if closeIdx < 0 {
					return fmt.Errorf("WriteControl caller %d failed with ErrCloseSent but no close frame is on the wire", i)
				}
			case r.appClosed:
			default:
				return fmt.Errorf("WriteControl caller %d failed with %v", i, cr.err)
			}
		}
	}
	for i, n := range c.Pings {
		may = append(may, want{pingPayload(i, n), wsref.OpPong})
	}
	if c.PeerClose != 0 && !c.PeerViolation && !c.PeerBig {
		may = append(may, want{wsref.CloseBody(c.PeerClose, ""), wsref.OpClose})
	}
	if c.PeerViolation || c.PeerBig {
		// the automatic close for the violation: status 1002 (read limit: 1009), any reason
		autoCode := 1002
		if !c.PeerViolation {
			autoCode = 1009
		}
		saw1002 := false
		for i, f := range frames {
			if f.Opcode == wsref.OpClose && len(f.Payload) >= 2 && int(f.Payload[0])<<8|int(f.Payload[1]) == autoCode {
				may = append(may, want{f.Payload, wsref.OpClose})
				saw1002 = true
				_ = i
				break
			}
		}
		appCloseSent := false
		for _, f := range frames {
			if f.Opcode == wsref.OpClose && !(len(f.Payload) >= 2 && int(f.Payload[0])<<8|int(f.Payload[1]) == autoCode) {
				appCloseSent = true
			}
		}
		if c.ReaderLast && !saw1002 && !appCloseSent && !r.appClosed && failedAt < 0 {
			timeouts := 0
			for _, cr := range r.ctl {
				if isTimeout(cr.err) {
					timeouts++
				}
			}
			return fmt.Errorf("the peer's framing violation / over-limit message was read after every writer had finished (%d earlier WriteControl timeouts), yet no close frame with status %d was sent", timeouts, autoCode)
		}
	}

	var wireCtl []wsref.WireMsg
	var wireData []wsref.WireMsg
	for _, m := range msgs {
		if wsref.IsControl(m.Opcode) {
			wireCtl = append(wireCtl, m)
		} else if m.Complete {
			wireData = append(wireData, m)
		}
	}
	// when did each frame reach the transport?
	frameArrived := make([]time.Time, len(frames))
	{
		off, wi := 0, 0
		for fi, f := range frames {
			for wi < len(writes) && off+len(writes[wi].Data) <= f.Off {
				off += len(writes[wi].Data)
				wi++
			}
			if wi < len(writes) {
				frameArrived[fi] = writes[wi].ArrivedAt
			}
		}
	}
	used := make([]bool, len(wireCtl))
	take := func(w want) int {
		for i, m := range wireCtl {
			if !used[i] && m.Opcode == w.op && bytes.Equal(m.Payload, w.payload) {
				used[i] = true
				return m.FirstFrame
			}
		}
		return -1
	}
	strict := closeIdx < 0 && !r.appClosed
	for k, w := range must {
		fi := take(w)
		if fi < 0 {
			return fmt.Errorf("a control message (op %d, %s) whose call returned nil is not on the wire", w.op, abbrev(w.payload))
		}
		if dl := mustDeadline[k]; !dl.IsZero() && frameArrived[fi].After(dl) {
			return fmt.Errorf("WriteControl caller %d (deadline +%dms) obtained the connection only %v after its deadline: it kept waiting for the connection instead of returning a timeout by the deadline", mustActor[k], c.Ctl[mustActor[k]].DeadlineMs, frameArrived[fi].Sub(dl))
		}
	}
	for _, w := range mustNot {
		if take(w) >= 0 {
			return fmt.Errorf("a WriteControl call that returned an error nevertheless put its frame (%s) on the wire", abbrev(w.payload))
		}
	}
	for _, w := range may {
		take(w)
	}
	for i, m := range wireCtl {
		if !used[i] {
			return fmt.Errorf("unexpected control frame on the wire: op %d payload %s", m.Opcode, abbrev(m.Payload))
		}
	}
	// data messages: per-writer order, payload fidelity
	wi := 0
	for _, s := range sentData {
		explicit := s.Reported && s.EndEv >= 0 && s.EndEv < len(r.tw.Calls) && r.tw.Calls[s.EndEv].Err == nil && r.tw.Calls[s.EndEv].Step == s.Step
		found := false
		for j := wi; j < len(wireData); j++ {
			m := wireData[j]
			payload := m.Payload
			if m.Compressed {
				inf, err := wsref.Inflate(m.Payload, len(s.Payload)+1024)
				if err != nil {
					return fmt.Errorf("data message %d on the wire does not inflate: %v", j, err)
				}
				payload = inf
			}
			if int(m.Opcode) == s.MT && bytes.Equal(payload, s.Payload) {
				found = true
				wi = j + 1
				break
			}
			if strict {
				return fmt.Errorf("data message %d on the wire (type %d, %d bytes) is not the next message the writer sent (type %d, %d bytes): corrupted or reordered", j, m.Opcode, len(payload), s.MT, len(s.Payload))
			}
		}
		if !found && (explicit || strict) {
			return fmt.Errorf("message of step %d (type %d, %d bytes) was reported as sent but is not completely on the wire", s.Step, s.MT, len(s.Payload))
		}
	}
	if strict && wi != len(wireData) {
		return fmt.Errorf("%d data messages on the wire, the writer sent %d", len(wireData), wi)
	}
	if strict && r.tw != nil {
		if err := checkCalls(r.tw, c.Steps); err != nil {
			return fmt.Errorf("writer (other actors only used WriteControl): %v", err)
		}
	}
	// C09 under concurrency: nothing after the close frame; calls started after it fail
	if closeIdx >= 0 {
		if closeIdx != len(frames)-1 || consumed != len(wrote) && !r.appClosed {
			return fmt.Errorf("bytes were written after the close frame under this schedule (%d frames follow it)", len(frames)-1-closeIdx)
		}
		// "calls that start after the close frame was written fail" is judged
		// only under the owned schedule: there the goroutine that wrote the close
		// frame runs until it blocks before anybody else is started, whereas in
		// the free-running leg a call can begin in the instant between the
		// transport accepting the frame and the writer recording it.
		if c.Free {
			closeGranted = 0
		}
		if r.tw != nil {
			for _, cl := range r.tw.Calls {
				if cl.StartSeq > closeGranted && closeGranted > 0 {
					switch cl.API {
					case "WriteMessage", "NextWriter", "WriteControl", "WriteJSON", "WritePreparedMessage":
						if cl.Err == nil {
							return fmt.Errorf("step %d %s started after the close frame had been written and succeeded", cl.Step, cl.API)
						}
					}
				}
			}
		}
		for i, cr := range r.ctl {
			if cr.startSeq > closeGranted && closeGranted > 0 && cr.err == nil {
				return fmt.Errorf("WriteControl caller %d started after the close frame had been written and succeeded", i)
			}
		}
	}
	// coverage
	contended := false
	timeouts := 0
	for _, cr := range r.ctl {
		if isTimeout(cr.err) {
			timeouts++
			contended = true
		}
		for _, gw := range writes {
			if gw.Arrived < cr.startSeq && cr.startSeq < gw.Granted {
				contended = true // the call started while another write was held in the transport
			}
		}
	}
	if r.tw != nil {
		for _, cl := range r.tw.Calls {
			for _, gw := range writes {
				if gw.Arrived < cl.StartSeq && cl.StartSeq < gw.Granted && cl.API != "Write" && cl.API != "WriteString" {
					contended = true
				}
			}
		}
	}
	o.ClassIf(contended, "lock_contended")
	o.ClassIf(timeouts > 0, "writecontrol_timed_out")
	o.ClassIf(closeIdx >= 0, "close_frame_sent")
	o.ClassIf(r.appClosed && failedAt < 0, "conn_Close_called")
	o.ClassIf(failedAt >= 0, "transport_write_failed")
	o.ClassIf(c.Free, "free_running")
	o.Class(fmt.Sprintf("ctl_actors_%d", len(c.Ctl)))
	if contended {
		o.NonTrivial("")
	}
	return nil
}
