package props

import (
	"pgregory.net/rapid"

	"verifharness/wsref"
)

// SCtl is a control frame placed before fragment At of its message (At ==
// number of fragments means after the last fragment, i.e. after the message).
type SCtl struct {
	At   int     `json:"at"`
	Op   byte    `json:"op"` // 9 ping, 10 pong
	Data Payload `json:"data"`
}

// SMsg is one data message of a conformant peer stream.
type SMsg struct {
	Op   byte    `json:"op"` // 1 text, 2 binary
	Data Payload `json:"data"`
	// Frags are the payload sizes of the fragments (of the wire payload, i.e.
	// of the deflated bytes for a compressed message).  The sizes are clipped
	// to what is left; what remains after the list goes into one more fragment
	// unless Exact is set and nothing remains.
	Frags []int `json:"frags,omitempty"`
	// TrailEmpty appends an empty final continuation frame.
	TrailEmpty bool   `json:"trail_empty,omitempty"`
	Ctl        []SCtl `json:"ctl,omitempty"`
	// Compression (only honoured when negotiated).
	Compressed bool        `json:"compressed,omitempty"`
	Segs       []wsref.Seg `json:"segs,omitempty"`
	// FragAtFlush: a compressed message is fragmented exactly where its deflate
	// segments end (block boundaries), instead of by Frags.
	FragAtFlush bool   `json:"frag_at_flush,omitempty"`
	BFinal      bool   `json:"bfinal,omitempty"`
	Level       int    `json:"level,omitempty"`
	KeyMode     string `json:"keymode,omitempty"` // rand | zero | ff | payload
}

// SClose is the optional close frame ending the stream.
type SClose struct {
	Code   int    `json:"code"`
	Reason string `json:"reason,omitempty"`
	Empty  bool   `json:"empty,omitempty"`
}

// Stream is a conformant frame stream description.
type Stream struct {
	Msgs    []SMsg  `json:"msgs"`
	Close   *SClose `json:"close,omitempty"`
	KeySeed uint32  `json:"keyseed,omitempty"`
}

// MCtl is a control frame of the model with its position.
type MCtl struct {
	Op      byte
	Payload []byte
	Off     int // wire offset of the frame
	End     int
	// Msg is the index of the data message the frame sits inside (between two
	// of its fragments) or before (if Inside is false, the frame precedes
	// message Msg, or follows the last message when Msg == len(msgs)).
	Msg    int
	Inside bool
	// WireBefore is the number of wire-payload bytes of message Msg that
	// precede the control frame (valid when Inside).
	WireBefore int
}

// MMsg is a data message of the model.
type MMsg struct {
	Type       int
	Payload    []byte // application bytes
	WireLen    int    // total payload bytes on the wire (deflated size if compressed)
	Compressed bool
	// SelfTerminating: the deflate stream carries a BFINAL block, so a
	// decompressor knows the payload is complete before the last wire bytes
	// (padding octet, empty final fragment) arrive.
	SelfTerminating bool
	Start, End      int // wire offsets [Start, End) from first header byte to last payload byte
	NFrames         int
	FrameEnds       []int // wire offset after each data frame of the message
	FrameStarts     []int
	FrameHdr        []int // header length of each data frame
	FrameLens       []int // payload length of each data frame
}

// Model is what a stream encodes.
type Model struct {
	Wire      []byte
	Msgs      []MMsg
	Ctl       []MCtl
	Close     *SClose
	CloseOff  int // offset of the close frame, -1 if none
	CloseBody []byte
	Frames    []wsref.Frame
	FrameOff  []int
}

func streamKey(seed uint32, idx int, mode string, payload []byte) [4]byte {
	switch mode {
	case "zero":
		return [4]byte{}
	case "ff":
		return [4]byte{0xff, 0xff, 0xff, 0xff}
	case "payload":
		var k [4]byte
		copy(k[:], payload)
		return k
	}
	x := seed ^ uint32(idx+1)*2654435761
	x ^= x << 13
	x ^= x >> 17
	x ^= x << 5
	return [4]byte{byte(x), byte(x >> 8), byte(x >> 16), byte(x >> 24)}
}

// BuildStream encodes the stream as sent by a peer that must (masked) or must
// not mask, and returns the model.
func BuildStream(s Stream, masked, compression bool) *Model {
	m := &Model{CloseOff: -1}
	fi := 0
	add := func(f wsref.Frame, mode string) (off, end, hdr int) {
		f.Masked = masked
		if masked {
			f.Key = streamKey(s.KeySeed, fi, mode, f.Payload)
		}
		fi++
		off = len(m.Wire)
		m.Wire = wsref.AppendFrame(m.Wire, f)
		m.Frames = append(m.Frames, f)
		m.FrameOff = append(m.FrameOff, off)
		return off, len(m.Wire), len(m.Wire) - off - len(f.Payload)
	}
	for mi, sm := range s.Msgs {
		app := sm.Data.Bytes()
		wirePayload := app
		comp := sm.Compressed && compression
		frags := sm.Frags
		if comp {
			var bounds []int
			wirePayload, bounds = wsref.DeflateMessageBounds(app, sm.Segs, sm.BFinal, sm.Level)
			if sm.FragAtFlush && len(bounds) > 0 {
				// fragment exactly at the deflate block boundaries
				frags = nil
				prev := 0
				for _, b := range bounds {
					frags = append(frags, b-prev)
					prev = b
				}
			}
		}
		// fragment sizes
		var sizes []int
		rest := len(wirePayload)
		for _, f := range frags {
			if f > rest {
				f = rest
			}
			if f < 0 {
				f = 0
			}
			sizes = append(sizes, f)
			rest -= f
		}
		if rest > 0 || len(sizes) == 0 {
			sizes = append(sizes, rest)
		}
		if sm.TrailEmpty {
			sizes = append(sizes, 0)
		}
		mm := MMsg{Type: int(sm.Op), Payload: app, WireLen: len(wirePayload), Compressed: comp, SelfTerminating: comp && sm.BFinal, Start: -1}
		pos := 0
		for k, sz := range sizes {
			for _, c := range sm.Ctl {
				if c.At == k {
					p := c.Data.Bytes()
					off, end, _ := add(wsref.Frame{Fin: true, Opcode: c.Op, Payload: p}, "rand")
					m.Ctl = append(m.Ctl, MCtl{Op: c.Op, Payload: p, Off: off, End: end, Msg: mi, Inside: k > 0, WireBefore: pos})
				}
			}
			f := wsref.Frame{Fin: k == len(sizes)-1, Opcode: wsref.OpCont, Payload: wirePayload[pos : pos+sz]}
			if k == 0 {
				f.Opcode = sm.Op
				f.Rsv1 = comp
			}
			off, end, hdr := add(f, sm.KeyMode)
			if mm.Start < 0 {
				mm.Start = off
			}
			mm.End = end
			mm.NFrames++
			mm.FrameStarts = append(mm.FrameStarts, off)
			mm.FrameEnds = append(mm.FrameEnds, end)
			mm.FrameHdr = append(mm.FrameHdr, hdr)
			mm.FrameLens = append(mm.FrameLens, sz)
			pos += sz
		}
		for _, c := range sm.Ctl {
			if c.At >= len(sizes) {
				p := c.Data.Bytes()
				off, end, _ := add(wsref.Frame{Fin: true, Opcode: c.Op, Payload: p}, "rand")
				m.Ctl = append(m.Ctl, MCtl{Op: c.Op, Payload: p, Off: off, End: end, Msg: mi + 1, Inside: false})
			}
		}
		m.Msgs = append(m.Msgs, mm)
	}
	if s.Close != nil {
		var body []byte
		if !s.Close.Empty {
			body = wsref.CloseBody(s.Close.Code, s.Close.Reason)
		}
		m.Close = s.Close
		m.CloseBody = body
		off, _, _ := add(wsref.Frame{Fin: true, Opcode: wsref.OpClose, Payload: body}, "rand")
		m.CloseOff = off
	}
	return m
}

// ---------------------------------------------------------------- generator

// acceptCloseCodes are the status codes a reader must accept (C08 statement).
var acceptCloseCodes = []int{1000, 1001, 1002, 1003, 1007, 1008, 1009, 1010, 1011, 3000, 3001, 3999, 4000, 4998, 4999}

func genCloseReason(t *rapid.T, max int) string {
	r := rapid.StringOfN(rapid.RuneFrom([]rune("abcXYZ 019-_.é世𝄞\uFFFD\uFFFE\U0010FFFF\uE000\x00\x7f")), 0, max, max).Draw(t, "reason")
	for len(r) > max {
		// trim whole runes
		rs := []rune(r)
		r = string(rs[:len(rs)-1])
	}
	return r
}

func genSClose(t *rapid.T) *SClose {
	c := &SClose{}
	switch rapid.IntRange(0, 5).Draw(t, "close_kind") {
	case 0:
		c.Empty = true
		c.Code = 1005
	case 1:
		c.Code = rapid.SampledFrom(acceptCloseCodes).Draw(t, "ccode")
		c.Reason = genCloseReason(t, 123)
	default:
		c.Code = rapid.OneOf(rapid.SampledFrom(acceptCloseCodes), rapid.IntRange(3000, 4999)).Draw(t, "ccode")
		c.Reason = genCloseReason(t, rapid.SampledFrom([]int{0, 5, 30, 123}).Draw(t, "rmax"))
	}
	return c
}

var segKinds = []string{"flate", "stored", "fixed"}

func genSegs(t *rapid.T, n int) []wsref.Seg {
	k := rapid.IntRange(0, 3).Draw(t, "nsegs")
	segs := make([]wsref.Seg, k)
	for i := range segs {
		s := wsref.Seg{Kind: rapid.SampledFrom(segKinds).Draw(t, "segkind")}
		s.Len = rapid.OneOf(rapid.IntRange(0, 3), rapid.IntRange(0, n+1)).Draw(t, "seglen")
		switch s.Kind {
		case "flate":
			s.Level = rapid.IntRange(-2, 9).Draw(t, "seglevel")
			s.Chunk = rapid.SampledFrom([]int{0, 0, 1, 7, 100}).Draw(t, "segchunk")
		case "stored":
			s.Block = rapid.SampledFrom([]int{0, 1, 5, 100, 65535}).Draw(t, "segblock")
		default:
			s.Match = rapid.Bool().Draw(t, "segmatch")
		}
		segs[i] = s
	}
	return segs
}

// SGenOpts tunes the stream generator.
type SGenOpts struct {
	MaxMsgs     int
	Compression bool // negotiated: messages may be compressed
	R           int  // reader's read buffer (bias)
	AllowHuge   bool
	MaxLen      int  // if > 0, cap payload lengths
	CtlHeavy    bool // emphasise control frames (C08)
	NoClose     bool
}

func genSMsg(t *rapid.T, o SGenOpts) SMsg {
	r := o.R
	if r <= 0 {
		r = 4096
	}
	var m SMsg
	m.Op = rapid.SampledFrom([]byte{wsref.OpText, wsref.OpBinary}).Draw(t, "mop")
	n := genLen(t, "mlen", r, o.AllowHuge)
	if o.MaxLen > 0 && n > o.MaxLen {
		n = n % (o.MaxLen + 1)
	}
	m.Data = genPayloadOfLen(t, "mp", n)
	if rapid.IntRange(0, 12).Draw(t, "jsonmsg") == 0 {
		js := rapid.SampledFrom([]string{`{"a":1}`, `[1,2,3]`, `"x"`, `{"k":[true,null,"é"]}` + "\n", `12 34`, `{"a":`, `[]x`, ` 7 `}).Draw(t, "jsontext")
		m.Data = Payload{Len: len(js), Kind: "raw", Raw: []byte(js)}
		m.Op = wsref.OpText
		n = len(js)
	}
	if o.Compression && rapid.IntRange(0, 2).Draw(t, "compressed") > 0 {
		m.Compressed = true
		if rapid.IntRange(0, 7).Draw(t, "bfinal") == 0 {
			m.BFinal = true
			m.Level = rapid.IntRange(-2, 9).Draw(t, "bflevel")
		} else {
			m.Segs = genSegs(t, n)
			m.FragAtFlush = rapid.IntRange(0, 3).Draw(t, "frag_at_flush") == 0
		}
	}
	// fragmentation
	nf := rapid.SampledFrom([]int{0, 0, 1, 2, 3, 4, 7}).Draw(t, "nfrags")
	for i := 0; i < nf; i++ {
		var f int
		switch rapid.IntRange(0, 5).Draw(t, "fclass") {
		case 0:
			f = 0
		case 1:
			f = rapid.IntRange(1, 3).Draw(t, "fsz")
		case 2:
			f = rapid.SampledFrom([]int{125, 126, 127, r - 1, r, r + 1, 65535, 65536}).Draw(t, "fsz")
		default:
			f = rapid.IntRange(0, n+1).Draw(t, "fsz")
		}
		m.Frags = append(m.Frags, f)
	}
	if rapid.IntRange(0, 39).Draw(t, "many_empty_frags") == 17 {
		// a long run of payload-less fragments (more than bufio tolerates
		// without progress) somewhere in the message
		run := make([]int, rapid.SampledFrom([]int{101, 130, 260}).Draw(t, "empty_run"))
		at := rapid.IntRange(0, len(m.Frags)).Draw(t, "empty_run_at")
		m.Frags = append(append(append([]int(nil), m.Frags[:at]...), run...), m.Frags[at:]...)
	}
	m.TrailEmpty = rapid.IntRange(0, 9).Draw(t, "trailempty") == 0
	maxCtl := 2
	if o.CtlHeavy {
		maxCtl = 5
	}
	nc := rapid.IntRange(0, maxCtl).Draw(t, "nctl")
	if !o.CtlHeavy && rapid.IntRange(0, 1).Draw(t, "noctl") == 0 {
		nc = 0
	}
	for i := 0; i < nc; i++ {
		m.Ctl = append(m.Ctl, SCtl{At: rapid.IntRange(0, nf+2).Draw(t, "ctlat"), Op: rapid.SampledFrom([]byte{wsref.OpPing, wsref.OpPong}).Draw(t, "ctlop"), Data: genCtlPayload(t, "ctlp")})
	}
	m.KeyMode = rapid.SampledFrom([]string{"rand", "rand", "rand", "zero", "ff", "payload"}).Draw(t, "keymode")
	return m
}

func genStream(t *rapid.T, o SGenOpts) Stream {
	var s Stream
	s.Msgs = rapid.SliceOfN(rapid.Custom(func(t *rapid.T) SMsg { return genSMsg(t, o) }), 0, o.MaxMsgs).Draw(t, "msgs")
	if !o.NoClose && rapid.IntRange(0, 2).Draw(t, "hasclose") == 0 {
		s.Close = genSClose(t)
	}
	s.KeySeed = rapid.Uint32().Draw(t, "keyseed")
	return s
}
