package props

import (
	"errors"
	"fmt"
	"io"
	"time"

	"github.com/gorilla/websocket"
	"pgregory.net/rapid"

	"verifharness/wsref"
	"verifharness/xport"
)

// CtlCase is a conformant stream with emphasised control traffic.
type CtlCase struct {
	ReadCase
	// Handlers: default | custom | fail
	Handlers string `json:"handlers"`
	// FailAt: index of the control frame whose handler returns an error.
	FailAt int `json:"fail_at"`
	// LocalClose: the application has sent its own close frame before it
	// reads (locally initiated closing handshake): nothing can be written back
	// any more, but frames must still reach the handlers and reads must end
	// with the CloseError of the received close.
	LocalClose bool `json:"local_close,omitempty"`
	// TightLimit: SetReadLimit(largest message's size on the wire): control
	// frames are not part of any message, so nothing may change.
	TightLimit bool `json:"tight_limit,omitempty"`
	// StaleWriteDeadline: the application's own write deadline has long
	// passed; automatic replies are not subject to it.
	StaleWriteDeadline bool `json:"stale_write_deadline,omitempty"`
	// FailNetErr: the failing handler returns a temporary net.Error instead
	// of a plain error.
	FailNetErr bool `json:"fail_net_err,omitempty"`
	// FailCloseSent: the failing handler returns websocket.ErrCloseSent (what
	// "return c.WriteControl(...)" yields once the application has sent its
	// close); it is a handler error like any other.
	FailCloseSent bool `json:"fail_close_sent,omitempty"`
	// FailEOF: the failing handler returns io.EOF itself - an error like any
	// other. (Judged only for a control frame that sits between messages: inside
	// a message every read error that is io.EOF means "unexpected EOF".)
	FailEOF bool `json:"fail_eof,omitempty"`
	// IdleFirst: more than a second passes between the set-up of the
	// connection and the first read (rare: it costs real time).
	IdleFirst bool `json:"idle_first,omitempty"`
	// Reinstall: the handler of control frame ReinstallAt replaces all three
	// handlers from inside the handler (SetPingHandler etc.); every later
	// frame must reach the new set.
	Reinstall   bool `json:"reinstall,omitempty"`
	ReinstallAt int  `json:"reinstall_at,omitempty"`
	// BadWriteFirst: before it reads, the application makes an invalid write
	// request, which is refused and writes nothing (1 WriteMessage of a
	// 126-byte ping, 2 NextWriter(pong) + 126 bytes + Close, 3 WriteMessage
	// with an unknown type, 4 WriteControl of a 126-byte ping): a refused
	// request leaves the connection as it was, automatic replies included.
	BadWriteFirst int `json:"bad_write_first,omitempty"`
}

// checkReplyDeadlines: every frame the library writes on its own while the
// application reads (pong, close echo, 1002, 1009) goes out under a write
// deadline of its own - a bounded one, whatever the application's write
// deadline is - or a peer that does not read could block the reader for ever.
func checkReplyDeadlines(log []xport.Op, from int, start time.Time) error {
	var armed time.Time
	for i, op := range log {
		switch op.Kind {
		case xport.OpSetWriteDeadline, xport.OpSetDeadline:
			armed = op.Deadline
		case xport.OpWrite:
			if i < from {
				continue
			}
			if armed.IsZero() {
				return fmt.Errorf("an automatic reply (%d bytes) was written with no write deadline armed: a peer that has stopped reading blocks the reading application for ever", op.Asked)
			}
			if armed.Before(start.Add(-time.Minute)) || armed.After(time.Now().Add(time.Minute)) {
				return fmt.Errorf("an automatic reply was written under the write deadline %v, which is not a deadline of its own (read started %v)", armed, start)
			}
		}
	}
	return nil
}

var errHandler = errors.New("harness: handler says no")

// handlerNetErr is a handler error that is also a temporary, timed-out
// net.Error - what a handler returns when it passes on the result of its own
// WriteControl call.
type handlerNetErr struct{}

func (handlerNetErr) Error() string   { return "harness: handler's reply timed out" }
func (handlerNetErr) Timeout() bool   { return true }
func (handlerNetErr) Temporary() bool { return true }

var errHandlerNet error = handlerNetErr{}

func genCtlCase(t *rapid.T) CtlCase {
	var c CtlCase
	c.R = genReaderCfg(t)
	c.S = genStream(t, SGenOpts{MaxMsgs: 4, Compression: c.R.Compress, R: c.R.ReadBuf, MaxLen: 3000, CtlHeavy: true})
	if c.S.Close == nil && rapid.Bool().Draw(t, "force_close") {
		c.S.Close = genSClose(t)
	}
	c.Chunks = genChunks(t, "chunks", 1500)
	c.Reads = genReadProgram(t, c.R.ReadBuf, true, false)
	for i := range c.Reads {
		if c.Reads[i].Op == "join" {
			c.Reads[i] = RStep{Op: "reader", Abandon: -1, Sizes: []int{3, 100}}
		}
	}
	c.EOFWith = rapid.Bool().Draw(t, "eof_with_last_bytes")
	c.Handlers = rapid.SampledFrom([]string{"default", "default", "custom", "fail", "reset"}).Draw(t, "handlers")
	c.FailAt = rapid.IntRange(0, 6).Draw(t, "fail_at")
	c.LocalClose = rapid.IntRange(0, 4).Draw(t, "local_close") == 0
	c.TightLimit = rapid.IntRange(0, 3).Draw(t, "tight_limit") == 0
	c.StaleWriteDeadline = rapid.IntRange(0, 3).Draw(t, "stale_wdl") == 0
	c.FailNetErr = rapid.Bool().Draw(t, "fail_net_err")
	c.FailCloseSent = !c.FailNetErr && rapid.Bool().Draw(t, "fail_close_sent")
	c.FailEOF = !c.FailNetErr && !c.FailCloseSent && rapid.Bool().Draw(t, "fail_eof")
	c.IdleFirst = rapid.IntRange(0, 299).Draw(t, "idle_first") == 137
	if rapid.IntRange(0, 2).Draw(t, "reinstall") == 0 {
		c.Reinstall, c.ReinstallAt = true, rapid.IntRange(0, 3).Draw(t, "reinstall_at")
	}
	if rapid.IntRange(0, 3).Draw(t, "bad_write_first") == 0 {
		c.BadWriteFirst = rapid.IntRange(1, 4).Draw(t, "bad_write_kind")
	}
	return c
}

func checkC08(c CtlCase, o *Obs) error {
	model := BuildStream(c.S, c.R.Server, c.R.Compress)
	tr := xport.NewScriptConn(nil, nil)
	conn, err := NewConn(c.R, tr, nil)
	if err != nil {
		return err
	}
	tr.SetInput(model.Wire, c.Chunks)
	tr.EOFWithData = c.EOFWith
	prog := &ReadProgress{}
	errHandler := errHandler
	if c.FailNetErr {
		errHandler = errHandlerNet
	} else if c.FailCloseSent {
		errHandler = websocket.ErrCloseSent
	} else if c.FailEOF {
		inside := false
		if c.FailAt < len(model.Ctl) {
			inside = model.Ctl[c.FailAt].Inside
		}
		if !inside {
			errHandler = io.EOF
		}
	}
	h := &handlerLog{failAt: -1, prog: prog, custom: c.Handlers == "custom", failErr: errHandler, reinstall: c.Reinstall, reinstallAfter: c.ReinstallAt}
	nctl := len(model.Ctl)
	if model.Close != nil {
		nctl++
	}
	failing := c.Handlers == "fail" && c.FailAt < nctl
	if failing {
		h.failAt = c.FailAt
	}
	h.install(conn)
	if c.Handlers == "reset" {
		// the application had handlers of its own for a while and now restores
		// the defaults the documented way: Set...Handler(nil)
		conn.SetPingHandler(nil)
		conn.SetPongHandler(nil)
		conn.SetCloseHandler(nil)
	}
	if c.StaleWriteDeadline {
		conn.SetWriteDeadline(time.Now().Add(-time.Hour))
		o.Class("stale_write_deadline")
	}
	if c.TightLimit {
		limit := 1
		for _, m := range model.Msgs {
			if m.WireLen > limit {
				limit = m.WireLen
			}
		}
		conn.SetReadLimit(int64(limit))
		if len(model.Ctl) > 0 {
			o.Class("tight_read_limit_with_control_frames")
		}
	}
	if c.BadWriteFirst != 0 {
		big := make([]byte, 126)
		switch c.BadWriteFirst {
		case 1:
			conn.WriteMessage(websocket.PingMessage, big)
		case 2:
			if w, err := conn.NextWriter(websocket.PongMessage); err == nil {
				w.Write(big)
				w.Close()
			}
		case 3:
			conn.WriteMessage(99, big[:3])
		default:
			conn.WriteControl(websocket.PingMessage, big, time.Time{})
		}
		if n := len(tr.Wrote); n != 0 {
			return fmt.Errorf("harness: the invalid write request %d put %d bytes on the wire (C10's business)", c.BadWriteFirst, n)
		}
		o.Class("refused_write_request_before_reading")
	}
	localClose := websocket.FormatCloseMessage(1001, "bye")
	if c.LocalClose {
		if err := conn.WriteControl(websocket.CloseMessage, localClose, time.Time{}); err != nil {
			return fmt.Errorf("WriteControl(close) failed: %v", err)
		}
	}
	lens := make([]int, len(model.Msgs))
	for i, m := range model.Msgs {
		lens[i] = len(m.Payload)
	}
	afterReadError = func(cn *websocket.Conn, i int) {
		// a retrying application arms new read deadlines; "permanent" means permanent
		switch i % 4 {
		case 1:
			cn.SetReadDeadline(time.Now().Add(time.Hour))
		case 3:
			cn.SetReadDeadline(time.Time{})
		}
	}
	if c.IdleFirst {
		time.Sleep(1100 * time.Millisecond)
		o.Class("idle_for_a_second_before_the_first_read")
	}
	rereadSameErr = true
	defer func() { rereadSameErr = false }()
	logFrom, readStart := len(tr.Log), time.Now()
	rt := RunReadP(conn, c.Reads, len(model.Msgs)+1, lens, 4, prog)
	afterReadError = nil
	if err := checkReplyDeadlines(tr.Log, logFrom, readStart); err != nil {
		return err
	}

	// expected handler events in wire order
	type want struct {
		ev  hEvent
		ctl *MCtl
	}
	var wants []want
	for i := range model.Ctl {
		mc := &model.Ctl[i]
		wants = append(wants, want{hEvent{Op: mc.Op, Payload: string(mc.Payload)}, mc})
	}
	if model.Close != nil {
		code, text := wsref.ParseCloseBody(model.CloseBody)
		wants = append(wants, want{hEvent{Op: wsref.OpClose, Payload: text, Code: code}, nil})
	}
	expectEvents := len(wants)
	if failing {
		expectEvents = c.FailAt + 1
	}
	expectReplies := expectEvents
	if c.Handlers == "reset" {
		expectEvents = 0 // the logging handlers were replaced by the defaults
	}
	if len(h.Events) != expectEvents {
		return fmt.Errorf("%d control frames should have reached a handler, %d did (handler mode %s, failing=%v)", expectEvents, len(h.Events), c.Handlers, failing)
	}
	for i := 0; i < expectEvents; i++ {
		w, g := wants[i], h.Events[i]
		if wantGen := map[bool]int{false: 0, true: 1}[c.Reinstall && i > c.ReinstallAt]; g.Gen != wantGen {
			return fmt.Errorf("control frame %d reached handler set %d; the handler of frame %d had replaced the handlers, so set %d serves it", i, g.Gen, c.ReinstallAt, wantGen)
		}
		if g.Op != w.ev.Op || g.Payload != w.ev.Payload || (w.ev.Op == wsref.OpClose && g.Code != w.ev.Code) {
			return fmt.Errorf("control frame %d: handler saw op %d code %d payload %s; the stream has op %d code %d payload %s", i, g.Op, g.Code, abbrev([]byte(g.Payload)), w.ev.Op, w.ev.Code, abbrev([]byte(w.ev.Payload)))
		}
		// ordering relative to the surrounding data
		nmsgs := len(model.Msgs)
		if w.ctl == nil { // close frame: after every message
			if g.Req < nmsgs {
				return fmt.Errorf("close handler ran while the application was on message %d of %d: before the application asked for what follows the last message", g.Req, nmsgs)
			}
			continue
		}
		mc := w.ctl
		if !mc.Inside {
			// the frame precedes message mc.Msg (follows message mc.Msg-1)
			if g.Req < mc.Msg {
				return fmt.Errorf("control frame %d sits after message %d but its handler ran while the application was still on message %d", i, mc.Msg-1, g.Req)
			}
			if g.Req > mc.Msg {
				return fmt.Errorf("control frame %d sits before message %d but its handler ran only when the application asked for message %d", i, mc.Msg, g.Req)
			}
			if g.Bytes != 0 {
				return fmt.Errorf("control frame %d precedes message %d but %d bytes of it had already been delivered when the handler ran", i, mc.Msg, g.Bytes)
			}
			continue
		}
		// inside message mc.Msg
		switch {
		case g.Req == mc.Msg:
			mm := model.Msgs[mc.Msg]
			st := stepForMsg(c.Reads, rt, mc.Msg)
			if !mm.Compressed && st.Op == "reader" && st.Wrap == "" && g.Bytes != mc.WireBefore {
				return fmt.Errorf("control frame %d sits after byte %d of message %d, but its handler ran when %d bytes had been delivered", i, mc.WireBefore, mc.Msg, g.Bytes)
			}
		case g.Req == mc.Msg+1:
			// handled while skipping the rest of an abandoned message
			st := stepForMsg(c.Reads, rt, mc.Msg)
			if st.Abandon < 0 && !model.Msgs[mc.Msg].SelfTerminating {
				return fmt.Errorf("control frame %d inside message %d was handled only after the application had read that message to its end", i, mc.Msg)
			}
		default:
			return fmt.Errorf("control frame %d inside message %d was handled while the application was on message %d", i, mc.Msg, g.Req)
		}
	}

	// read results
	if failing {
		if rt.Final == nil || !errors.Is(rt.Final, errHandler) {
			return fmt.Errorf("handler %d returned an error but the read API reported %v", c.FailAt, rt.Final)
		}
		for _, m := range rt.Msgs {
			if m.Err != nil && !errors.Is(m.Err, errHandler) {
				return fmt.Errorf("a read failed with %v although the only failure was the handler error", m.Err)
			}
		}
		for i, e := range rt.After {
			if !errors.Is(e, errHandler) {
				return fmt.Errorf("handler error is not permanent: later read %d returned %v", i, e)
			}
		}
	} else {
		n, err := compareRead(model.Msgs, rt, c.Reads)
		if err != nil {
			return err
		}
		if n != len(model.Msgs) || rt.Final == nil {
			return fmt.Errorf("%d of %d messages delivered, final error %v", n, len(model.Msgs), rt.Final)
		}
		if model.Close != nil {
			code, text := wsref.ParseCloseBody(model.CloseBody)
			var ce *websocket.CloseError
			if !errors.As(rt.Final, &ce) || ce.Code != code || ce.Text != text {
				return fmt.Errorf("close frame (%d,%q) received but reads ended with %v", code, text, rt.Final)
			}
			// the helpers applications use to classify the error agree with it
			other := 1000
			if code == 1000 {
				other = 1001
			}
			if !websocket.IsCloseError(rt.Final, code) || websocket.IsCloseError(rt.Final, other) || !websocket.IsCloseError(rt.Final, other, code) {
				return fmt.Errorf("IsCloseError disagrees with the CloseError returned for close code %d (%v)", code, rt.Final)
			}
			if websocket.IsUnexpectedCloseError(rt.Final, other, code) || !websocket.IsUnexpectedCloseError(rt.Final, other) || !websocket.IsUnexpectedCloseError(rt.Final) {
				return fmt.Errorf("IsUnexpectedCloseError disagrees with the CloseError returned for close code %d (%v)", code, rt.Final)
			}
			for i, e := range rt.After {
				var ce2 *websocket.CloseError
				if !errors.As(e, &ce2) || ce2.Code != code || ce2.Text != text {
					return fmt.Errorf("close error is not permanent: later read %d returned %v", i, e)
				}
			}
		}
	}
	if rt.AfterData {
		return errors.New("a message was delivered after the read API had failed")
	}

	// replies
	if c.LocalClose {
		// after the local close frame nothing may be written (C09); the wire is that frame alone
		want := wsref.AppendFrame(nil, wsref.Frame{Fin: true, Opcode: wsref.OpClose, Payload: localClose})
		frames, _, derr := wsref.DecodeFrames(tr.Wrote, !c.R.Server)
		if derr != nil || len(frames) != 1 || frames[0].Opcode != wsref.OpClose || string(frames[0].Payload) != string(localClose) {
			return fmt.Errorf("after a locally sent close frame the wire must hold that frame only; wrote %d bytes (%d frames, err %v), reference frame %d bytes", len(tr.Wrote), len(frames), derr, len(want))
		}
		o.Class("local_close_first")
		o.NonTrivial("")
		return nil
	}
	var pongs [][]byte
	closeCode := -1
	for i := 0; i < expectReplies; i++ {
		if failing && i == c.FailAt {
			break // the failing handler did not reply
		}
		if c.Handlers == "custom" {
			break
		}
		switch wants[i].ev.Op {
		case wsref.OpPing:
			pongs = append(pongs, []byte(wants[i].ev.Payload))
		case wsref.OpClose:
			closeCode = wants[i].ev.Code
		}
	}
	if closeCode == 1005 {
		// empty close body is answered by an empty close frame
		frames, _, err := wsref.DecodeFrames(tr.Wrote, !c.R.Server)
		if err != nil {
			return fmt.Errorf("written bytes not well-formed: %v", err)
		}
		if len(frames) != len(pongs)+1 || frames[len(frames)-1].Opcode != wsref.OpClose || len(frames[len(frames)-1].Payload) != 0 {
			return fmt.Errorf("an empty close frame must be answered by one empty close frame after %d pongs; wrote %d frames", len(pongs), len(frames))
		}
		if err := checkWriteBack(tr.Wrote[:frames[len(frames)-1].Off], c.R, pongs, -1, false); err != nil {
			return err
		}
	} else if err := checkWriteBack(tr.Wrote, c.R, pongs, closeCode, false); err != nil {
		return err
	}
	if closeCode >= 0 && closeCode != 1005 {
		frames, _, _ := wsref.DecodeFrames(tr.Wrote, !c.R.Server)
		_ = frames
	}

	// The same through ReadJSON: a close frame, or a ping whose handler fails,
	// between the fragments of a JSON message that is not yet complete - the
	// read call returns the CloseError / the handler's error, not a verdict of
	// its own about the truncated document.
	if c.Handlers == "default" || c.Handlers == "fail" {
		o.Evals(1)
		trj := xport.NewScriptConn(nil, nil)
		connj, err := NewConn(c.R, trj, nil)
		if err != nil {
			return err
		}
		errHandler := errHandler
		if errHandler == io.EOF {
			errHandler = errors.New("handler failed") // inside a message io.EOF means "unexpected EOF"
		}
		mk := func(f wsref.Frame, k byte) []byte {
			f.Masked, f.Key = c.R.Server, [4]byte{k, 1, 2, 3}
			return wsref.AppendFrame(nil, f)
		}
		w := mk(wsref.Frame{Opcode: wsref.OpText, Payload: []byte(`{"a":`)}, 1)
		if c.Handlers == "default" {
			w = append(w, mk(wsref.Frame{Fin: true, Opcode: wsref.OpClose, Payload: wsref.CloseBody(1000, "bye")}, 2)...)
		} else {
			w = append(w, mk(wsref.Frame{Fin: true, Opcode: wsref.OpPing, Payload: []byte("x")}, 2)...)
			connj.SetPingHandler(func(string) error { return errHandler })
		}
		w = append(w, mk(wsref.Frame{Fin: true, Opcode: wsref.OpCont, Payload: []byte(`1}`)}, 3)...)
		trj.SetInput(w, nil)
		var v interface{}
		jerr := connj.ReadJSON(&v)
		var ce *websocket.CloseError
		switch {
		case c.Handlers == "default" && (!errors.As(jerr, &ce) || ce.Code != 1000 || ce.Text != "bye"):
			return fmt.Errorf("ReadJSON of a message whose fragments are separated by a close frame (1000, bye) returned %v (value %v), want that CloseError", jerr, v)
		case c.Handlers == "fail" && !errors.Is(jerr, errHandler):
			return fmt.Errorf("ReadJSON of a message whose fragments are separated by a ping whose handler failed with %q returned %v (value %v)", errHandler, jerr, v)
		}
		o.Class("control_frame_inside_a_message_read_with_ReadJSON")
	}
	inside, big, reason := false, false, false
	for _, mc := range model.Ctl {
		inside = inside || mc.Inside
		big = big || len(mc.Payload) == 125
	}
	if model.Close != nil && model.Close.Reason != "" {
		reason = true
	}
	o.ClassIf(inside, "control_between_fragments")
	o.ClassIf(big, "payload_125")
	o.ClassIf(reason, "close_with_reason")
	o.ClassIf(failing, "handler_error")
	o.ClassIf(model.Close != nil && model.Close.Empty, "close_empty")
	o.Class("handlers_" + c.Handlers)
	if inside || big || reason || failing {
		o.NonTrivial("")
	}
	return nil
}
