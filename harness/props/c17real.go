package props

import (
	"bufio"
	"errors"
	"fmt"
	"io"
	"net"
	"net/http"
	"strings"
	"sync"
	"time"

	"github.com/gorilla/websocket"
	"pgregory.net/rapid"
)

// RealCase is C17 against a real net/http server on the loopback interface:
// a raw TCP client sends the opening handshake and the frames of a conformant
// stream in one go (split into two segments at Split), optionally half-closes
// its sending side, and the handler upgrades - at once, or only after net/http
// has noticed the end of the client's stream (request context cancelled).
type RealCase struct {
	Compress bool   `json:"compress"`
	ReadBuf  int    `json:"rbuf"`
	S        Stream `json:"stream"`
	// Split: the first segment holds the request and the first Split bytes of
	// the frames (-1: everything in one segment).
	Split     int  `json:"split"`
	HalfClose bool `json:"half_close"`
	WaitCtx   bool `json:"wait_ctx"`
	// BodyLen > 0: the upgrade request carries a body of that many bytes, which
	// the handler reads before it upgrades; the frames follow the body.
	BodyLen int `json:"body_len,omitempty"`
}

func genRealCase(t *rapid.T) RealCase {
	var c RealCase
	c.Compress = rapid.Bool().Draw(t, "compress")
	c.ReadBuf = rapid.SampledFrom([]int{0, 0, 64, 300, 4096}).Draw(t, "rbuf")
	c.S = genStream(t, SGenOpts{MaxMsgs: 3, Compression: c.Compress, R: c.ReadBuf, MaxLen: rapid.SampledFrom([]int{20, 200, 6000}).Draw(t, "maxlen")})
	c.Split = -1
	if rapid.Bool().Draw(t, "two_segments") {
		c.Split = rapid.IntRange(0, 40).Draw(t, "split")
	}
	c.HalfClose = rapid.Bool().Draw(t, "half_close")
	c.WaitCtx = c.HalfClose && rapid.Bool().Draw(t, "wait_ctx")
	if rapid.IntRange(0, 3).Draw(t, "with_body") == 0 {
		c.BodyLen = rapid.SampledFrom([]int{1, 5, 64, 5000}).Draw(t, "body_len")
	}
	return c
}

type realResult struct {
	upgradeErr error
	rt         *RTrace
}

var realSrv struct {
	once sync.Once
	addr string
	err  error
	mu   sync.Mutex
	cur  *RealCase
	res  chan realResult
}

func realServer() (string, error) {
	realSrv.once.Do(func() {
		ln, err := net.Listen("tcp", "127.0.0.1:0")
		if err != nil {
			realSrv.err = err
			return
		}
		realSrv.addr = ln.Addr().String()
		srv := &http.Server{Handler: http.HandlerFunc(func(w http.ResponseWriter, r *http.Request) {
			realSrv.mu.Lock()
			c, res := realSrv.cur, realSrv.res
			realSrv.mu.Unlock()
			if c == nil {
				http.Error(w, "no case", 500)
				return
			}
			if c.WaitCtx {
				// scheduling only, never a verdict: give net/http the chance to see
				// the client's FIN before the handler upgrades
				select {
				case <-r.Context().Done():
				case <-time.After(2 * time.Second):
				}
			}
			if c.BodyLen > 0 {
				if b, _ := io.ReadAll(r.Body); len(b) != c.BodyLen {
					res <- realResult{upgradeErr: fmt.Errorf("harness: request body of %d bytes arrived as %d", c.BodyLen, len(b))}
					return
				}
			}
			u := websocket.Upgrader{ReadBufferSize: c.ReadBuf, EnableCompression: c.Compress, CheckOrigin: allowOrigin}
			conn, err := u.Upgrade(w, r, nil)
			if err != nil {
				res <- realResult{upgradeErr: err}
				return
			}
			defer conn.Close()
			// everything was sent before the handler ran: a read that has to wait
			// means bytes were lost (a failure that took this long is re-evaluated
			// by the runner's stall rule)
			conn.SetReadDeadline(time.Now().Add(5 * time.Second))
			model := BuildStream(c.S, true, c.Compress)
			lens := make([]int, len(model.Msgs))
			for i, m := range model.Msgs {
				lens[i] = len(m.Payload)
			}
			// read exactly what was sent: without a close frame or a half-close the
			// next read would wait for the client forever
			max := len(model.Msgs)
			if model.Close != nil || c.HalfClose {
				max++
			}
			res <- realResult{rt: RunRead(conn, nil, max, lens, 0)}
		})}
		go srv.Serve(ln)
	})
	return realSrv.addr, realSrv.err
}

func checkC17Real(c RealCase, o *Obs) error {
	addr, err := realServer()
	if err != nil {
		o.Class("skipped_no_loopback")
		return nil
	}
	model := BuildStream(c.S, true, c.Compress)
	res := make(chan realResult, 1)
	realSrv.mu.Lock()
	realSrv.cur, realSrv.res = &c, res
	realSrv.mu.Unlock()

	nc, err := net.Dial("tcp", addr)
	if err != nil {
		return fmt.Errorf("harness: dial loopback: %v", err)
	}
	defer nc.Close()
	req := "GET /ws HTTP/1.1\r\nHost: " + addr + "\r\nConnection: Upgrade\r\nUpgrade: websocket\r\nSec-WebSocket-Version: 13\r\nSec-WebSocket-Key: " + sampleKey + "\r\n"
	if c.Compress {
		req += "Sec-WebSocket-Extensions: permessage-deflate; server_no_context_takeover; client_no_context_takeover\r\n"
	}
	if c.BodyLen > 0 {
		req += fmt.Sprintf("Content-Length: %d\r\n\r\n%s", c.BodyLen, strings.Repeat("b", c.BodyLen))
		o.Class("request_with_body")
	} else {
		req += "\r\n"
	}
	wire := model.Wire
	split := c.Split
	if split < 0 || split > len(wire) {
		split = len(wire)
	}
	if _, err := nc.Write(append([]byte(req), wire[:split]...)); err != nil {
		return fmt.Errorf("harness: write: %v", err)
	}
	if split < len(wire) {
		if _, err := nc.Write(wire[split:]); err != nil {
			return fmt.Errorf("harness: write: %v", err)
		}
	}
	if c.HalfClose {
		nc.(*net.TCPConn).CloseWrite()
	}
	var r realResult
	select {
	case r = <-res:
	case <-time.After(30 * time.Second):
		return errors.New("the handler of the real net/http server did not finish within 30 s")
	}
	if r.upgradeErr != nil {
		return fmt.Errorf("real net/http server: Upgrade refused a valid handshake whose frames were sent right behind it (half-close %v, upgrade after the request context ended %v): %v", c.HalfClose, c.WaitCtx, r.upgradeErr)
	}
	n, cerr := compareRead(model.Msgs, r.rt, nil)
	if cerr != nil || n != len(model.Msgs) {
		return fmt.Errorf("real net/http server: %d of the %d messages sent right behind the handshake (first segment: request + %d of %d frame bytes; half-close %v) were delivered: %v / final %v", n, len(model.Msgs), split, len(wire), c.HalfClose, cerr, r.rt.Final)
	}
	// the client side sees a well-formed 101
	nc.SetReadDeadline(time.Now().Add(10 * time.Second))
	br := bufio.NewReader(nc)
	status, rerr := br.ReadString('\n')
	if rerr != nil || !strings.HasPrefix(status, "HTTP/1.1 101") {
		return fmt.Errorf("real net/http server: status line %q (%v)", status, rerr)
	}
	o.Class("real_server")
	o.ClassIf(c.HalfClose, "client_half_closed")
	o.ClassIf(c.WaitCtx, "upgrade_after_request_context_ended")
	if len(wire) > 0 {
		o.NonTrivial("")
	}
	return nil
}
