package props

import (
	"bytes"
	"errors"
	"fmt"
	"time"

	"github.com/gorilla/websocket"
	"pgregory.net/rapid"

	"verifharness/wsref"
	"verifharness/xport"
)

// WireCase is the case type shared by C01 (round trip) and C02 (wire format).
type WireCase struct {
	W      ConnCfg `json:"writer"`
	R      ConnCfg `json:"reader"`
	Steps  []WStep `json:"steps"`
	Chunks []int   `json:"chunks,omitempty"`
	Reads  []RStep `json:"reads,omitempty"`
	// EOFWith: the reader's transport returns its last bytes together with io.EOF.
	EOFWith bool `json:"eof_with,omitempty"`
	// ReaderWriteSide: 0 healthy; 1 the receiving application has already sent
	// its close frame (and keeps reading); 2 every transport write of the
	// receiver fails.  Its automatic replies cannot get out: what it receives
	// is unaffected.
	ReaderWriteSide int `json:"reader_write_side,omitempty"`
}

func genWireCase(t *rapid.T) WireCase {
	var c WireCase
	c.W.Server = rapid.Bool().Draw(t, "writer_is_server")
	c.R.Server = !c.W.Server
	c.W.ReadBuf, c.W.WriteBuf = genBuf(t, "w_rbuf"), genBuf(t, "w_wbuf")
	c.R.ReadBuf, c.R.WriteBuf = genBuf(t, "r_rbuf"), genBuf(t, "r_wbuf")
	c.W.Pool = rapid.Bool().Draw(t, "pool")
	c.W.Compress = rapid.Bool().Draw(t, "compress")
	c.R.Compress = c.W.Compress
	c.W.HSTimeout = rapid.IntRange(0, 3).Draw(t, "w_hs_timeout") == 0
	c.R.HSTimeout = rapid.IntRange(0, 3).Draw(t, "r_hs_timeout") == 0
	if c.R.Server {
		c.R.HijackR = rapid.SampledFrom([]int{0, 0, 16, 200, 256, 257, 1024}).Draw(t, "hijack_r")
	}
	c.Steps = genWriteProgram(t, c.W.EffWriteBuf(), WGenOpts{MaxSteps: 10, AllowHuge: true, AllowBad: true, AllowClose: true, AllowCtl: true})
	total := 0
	for _, s := range c.Steps {
		total += s.Data.Len + 14
	}
	c.Chunks = genChunks(t, "chunks", total)
	c.Reads = genReadProgram(t, c.R.ReadBuf, false, true)
	c.EOFWith = rapid.Bool().Draw(t, "eof_with_last_bytes")
	c.ReaderWriteSide = rapid.SampledFrom([]int{0, 0, 0, 1, 2}).Draw(t, "reader_write_side")
	return c
}

// SigCtlReadFromFull is the signature of a known finding: a control message
// (<= 125 bytes) written through NextWriter + ReadFrom/io.Copy is refused with
// "invalid control frame" when the bytes supplied so far fill the write buffer
// exactly (only possible when the effective write buffer is 125 bytes, i.e.
// WriteBufferSize in 1..125, and the payload is 125 bytes), because ReadFrom
// flushes a full buffer as a non-final frame before it learns that the source
// is exhausted.
const SigCtlReadFromFull = "ctl-readfrom-fills-wbuf-exactly"

// steerWriteProgram rewrites exactly the sub-cases matching a listed known
// finding (so that the search continues behind it) and returns how many it
// rewrote.
func steerWriteProgram(prop string, cfg ConnCfg, steps []WStep) ([]WStep, int) {
	// The finding is recorded under C01 ("valid messages are accepted"); every
	// check that reuses the write-program grammar steers away from it too.
	if !(IsKnown("C01", SigCtlReadFromFull) || IsKnown(prop, SigCtlReadFromFull)) || cfg.WriteBuf < 1 || cfg.WriteBuf > 125 {
		return steps, 0
	}
	n := 0
	out := make([]WStep, len(steps))
	copy(out, steps)
	for si, s := range out {
		if s.Op != "writer" || s.MT < 8 || s.Data.Len != 125 {
			continue
		}
		cum := 0
		var parts []WPart
		for _, p := range s.Parts {
			if p.API != "control" {
				l := p.Len
				if l > 125-cum {
					l = 125 - cum
				}
				cum += l
				if (p.API == "readfrom" || p.API == "copy") && cum == 125 {
					p.API = "write"
					n++
				}
			}
			parts = append(parts, p)
		}
		out[si].Parts = parts
	}
	return out, n
}

// checkCalls verifies the API-level outcome of a fault-free write program:
// valid requests succeed, invalid requests fail and write nothing.
func checkCalls(tw *WTrace, steps []WStep) error {
	badFailed := map[int]bool{}
	badWrote := map[int]int{}
	for _, cl := range tw.Calls {
		if cl.API == "WriteAfterClose" || cl.API == "CloseAfterClose" {
			continue
		}
		if cl.Bad {
			if cl.Err != nil {
				badFailed[cl.Step] = true
			}
			if !(cl.Msg >= 0 && tw.Sent[cl.Msg].OptionalEmpty) {
				badWrote[cl.Step] += cl.WroteAfter - cl.WroteBefore
			}
			continue
		}
		if cl.Err != nil {
			return fmt.Errorf("valid request refused: step %d part %d %s returned %q", cl.Step, cl.Part, cl.API, cl.Err)
		}
	}
	for _, cl := range tw.Calls {
		if (cl.API == "WriteAfterClose" || cl.API == "CloseAfterClose") && (cl.Err == nil || cl.WroteAfter != cl.WroteBefore) {
			return fmt.Errorf("step %d: %s on a message writer that was already closed returned %v and wrote %d bytes; it must fail and write nothing", cl.Step, cl.API, cl.Err, cl.WroteAfter-cl.WroteBefore)
		}
	}
	for si, s := range steps {
		isBad := s.Op == "bad" || (s.Op == "level" && (s.Level < -2 || s.Level > 9)) || (s.Op == "json" && s.JSON == unencodableJSON)
		if !isBad {
			continue
		}
		if !badFailed[si] {
			return fmt.Errorf("invalid request accepted: step %d (%s/%s type %d, %d bytes) returned no error", si, s.Bad, s.Via, s.MT, s.Data.Len)
		}
		if badWrote[si] != 0 {
			return fmt.Errorf("invalid request wrote %d bytes to the transport: step %d (%s/%s)", badWrote[si], si, s.Bad, s.Via)
		}
	}
	return nil
}

// expectedMsgs returns the data messages and control messages the program sent.
func expectedMsgs(tw *WTrace) (data, ctl []Sent) {
	for _, s := range tw.Sent {
		if s.Bad {
			continue
		}
		if s.OptionalEmpty {
			if !s.OnWire {
				continue
			}
		}
		if s.Control {
			ctl = append(ctl, s)
		} else {
			data = append(data, s)
		}
	}
	return
}

func abbrev(b []byte) string {
	if len(b) <= 24 {
		return fmt.Sprintf("%x", b)
	}
	return fmt.Sprintf("%x…(%d bytes)", b[:24], len(b))
}

func firstDiff(a, b []byte) int {
	n := len(a)
	if len(b) < n {
		n = len(b)
	}
	for i := 0; i < n; i++ {
		if a[i] != b[i] {
			return i
		}
	}
	if len(a) != len(b) {
		return n
	}
	return -1
}

type ctlLog struct {
	kinds    []int
	payloads []string
}

func (l *ctlLog) install(c *websocket.Conn) {
	defPing := c.PingHandler()
	c.SetPingHandler(func(s string) error {
		l.kinds = append(l.kinds, websocket.PingMessage)
		l.payloads = append(l.payloads, s)
		return defPing(s)
	})
	c.SetPongHandler(func(s string) error {
		l.kinds = append(l.kinds, websocket.PongMessage)
		l.payloads = append(l.payloads, s)
		return nil
	})
}

func checkC01(c WireCase, o *Obs) error {
	var nEx int
	c.Steps, nEx = steerWriteProgram("C01", c.W, c.Steps)
	o.Excluded(nEx)
	pool := &simplePool{}
	trW := xport.NewScriptConn(nil, nil)
	cw, err := NewConn(c.W, trW, pool)
	if err != nil {
		return err
	}
	tw := RunWrite(cw, trW, c.Steps, c.W.Compress)
	if err := checkCalls(tw, c.Steps); err != nil {
		return err
	}
	data, ctl := expectedMsgs(tw)

	trR := xport.NewScriptConn(nil, nil)
	cr, err := NewConn(c.R, trR, nil)
	if err != nil {
		return err
	}
	wire := append([]byte(nil), trW.Wrote...)
	switch c.ReaderWriteSide {
	case 1:
		cr.WriteControl(websocket.CloseMessage, websocket.FormatCloseMessage(1001, ""), time.Time{})
		o.Class("receiver_sent_its_close_first")
	case 2:
		trR.SetWriteFault(&xport.WriteFault{K: 0, Kind: xport.FaultError})
		o.Class("receiver_write_side_dead")
	}
	trR.SetInput(wire, c.Chunks)
	trR.EOFWithData = c.EOFWith
	var cl ctlLog
	cl.install(cr)
	lens := make([]int, len(data))
	for i, d := range data {
		lens[i] = len(d.Payload)
	}
	rt := RunRead(cr, c.Reads, len(data)+1, lens, 2)

	// --- compare
	di := 0
	for mi, m := range rt.Msgs {
		switch {
		case m.Joined > 0:
			var want []byte
			if di+m.Joined > len(data) {
				return fmt.Errorf("read %d: join read past the last sent message", mi)
			}
			// every step yields exactly one RMsg, so message mi came from step mi (cycled)
			st := stepForMsg(c.Reads, rt, mi)
			for _, d := range data[di : di+m.Joined] {
				want = append(want, d.Payload...)
				want = append(want, st.Term...)
			}
			if m.Err != nil {
				return fmt.Errorf("read %d: JoinMessages over messages %d..%d failed after %d of %d bytes: %v", mi, di, di+m.Joined-1, len(m.Data), len(want), m.Err)
			}
			if !bytes.Equal(m.Data, want) {
				return fmt.Errorf("read %d: JoinMessages content differs at byte %d (got %d bytes, want %d)", mi, firstDiff(m.Data, want), len(m.Data), len(want))
			}
			di += m.Joined
		case m.Op == "json":
			if di >= len(data) {
				return fmt.Errorf("read %d: ReadJSON delivered a message but only %d were sent", mi, len(data))
			}
			wv, werr := refJSON(data[di].Payload)
			if (werr == nil) != (m.JSONErr == nil) {
				return fmt.Errorf("read %d: ReadJSON error %v, reference decoder on the sent payload: %v", mi, m.JSONErr, werr)
			}
			if werr == nil && !jsonEqual(wv, m.JSONVal) {
				return fmt.Errorf("read %d: ReadJSON value %#v differs from reference %#v", mi, m.JSONVal, wv)
			}
			di++
		default:
			if di >= len(data) {
				return fmt.Errorf("read %d: a message (type %d, %s) was delivered but only %d were sent — invented or duplicated message", mi, m.MT, abbrev(m.Data), len(data))
			}
			want := data[di]
			if m.Err != nil {
				return fmt.Errorf("read %d: reading message %d (type %d, %d bytes) failed after %d bytes: %v", mi, di, want.MT, len(want.Payload), len(m.Data), m.Err)
			}
			if m.MT != want.MT {
				return fmt.Errorf("read %d: message %d arrived with type %d, sent as %d", mi, di, m.MT, want.MT)
			}
			if !m.Complete {
				return fmt.Errorf("read %d: message %d not complete", mi, di)
			}
			if !bytes.Equal(m.Data, want.Payload) {
				return fmt.Errorf("read %d: message %d payload differs at byte %d (got %d bytes %s, want %d bytes %s)", mi, di, firstDiff(m.Data, want.Payload), len(m.Data), abbrev(m.Data), len(want.Payload), abbrev(want.Payload))
			}
			di++
		}
	}
	if di != len(data) {
		return fmt.Errorf("only %d of %d sent data messages arrived; reader stopped with: %v", di, len(data), rt.Final)
	}
	if rt.Final == nil {
		return fmt.Errorf("after the last of %d messages the reader reported neither a message nor an error", len(data))
	}
	if rt.AfterData {
		return errors.New("a message was delivered after NextReader had returned an error")
	}
	// control messages seen by the peer's handlers (ping/pong; close is C08/C09)
	var wantK []int
	var wantP []string
	closeSent := -1
	for i, s := range ctl {
		if s.MT == websocket.CloseMessage {
			closeSent = i
			continue
		}
		wantK = append(wantK, s.MT)
		wantP = append(wantP, string(s.Payload))
	}
	if len(cl.kinds) != len(wantK) {
		return fmt.Errorf("peer handlers saw %d ping/pong messages, %d were sent", len(cl.kinds), len(wantK))
	}
	for i := range wantK {
		if cl.kinds[i] != wantK[i] || cl.payloads[i] != wantP[i] {
			return fmt.Errorf("control message %d: peer saw type %d payload %s, sent type %d payload %s", i, cl.kinds[i], abbrev([]byte(cl.payloads[i])), wantK[i], abbrev([]byte(wantP[i])))
		}
	}
	if closeSent >= 0 {
		code, text := wsref.ParseCloseBody(ctl[closeSent].Payload)
		var ce *websocket.CloseError
		if !errors.As(rt.Final, &ce) || ce.Code != code || ce.Text != text {
			return fmt.Errorf("close message (%d,%q) was sent last but the peer's reader ended with %v", code, text, rt.Final)
		}
	}

	// --- coverage classes
	classifyWire(c, tw, data, ctl, o)
	return nil
}

// stepForMsg finds the read step that produced message mi (steps are cycled,
// join steps consume several messages but one step).
func stepForMsg(steps []RStep, rt *RTrace, mi int) RStep {
	if len(steps) == 0 {
		return RStep{Op: "readmessage"}
	}
	return steps[mi%len(steps)]
}

func classifyWire(c WireCase, tw *WTrace, data, ctl []Sent, o *Obs) {
	w := c.W.EffWriteBuf()
	big, split, inter, comp := false, false, false, false
	for _, s := range c.Steps {
		if s.Op == "writer" && len(s.Parts) > 1 {
			split = true
		}
		for _, p := range s.Parts {
			if p.API == "control" || p.API == "prepctl" {
				inter = true
			}
			o.Class("part_" + p.API)
		}
		o.Class("op_" + s.Op)
	}
	for _, d := range data {
		if len(d.Payload) > w {
			big = true
		}
		if d.MayCompress {
			comp = true
		}
		switch n := len(d.Payload); {
		case n == 0:
			o.Class("len_0")
		case n <= 125:
			o.Class("len_le125")
		case n < 65536:
			o.Class("len_16bit")
		default:
			o.Class("len_64bit")
		}
	}
	if len(ctl) > 0 && len(data) > 0 {
		inter = true
	}
	chunked := len(c.Chunks) > 0
	o.ClassIf(big, "msg_gt_wbuf")
	o.ClassIf(split, "split_writes")
	o.ClassIf(inter, "interleaved_control")
	o.ClassIf(comp, "compression_on")
	o.ClassIf(chunked, "chunked_transport")
	o.ClassIf(c.W.Pool, "pool")
	o.Class("writer_" + c.W.Role())
	if len(data) >= 1 && (big || split || inter || comp || chunked) {
		o.NonTrivial("")
	}
}
