package props

import (
	"bytes"
	"fmt"
	"io"

	"github.com/gorilla/websocket"
	"pgregory.net/rapid"

	"verifharness/xport"
)

// MAct is one step of an interleaved multi-connection read schedule:
// connection Conn reads N bytes of its current message (opening the next
// message first if none is open); N == -1 reads to the end of the message;
// N == 0 moves on to the next message (abandoning what is left).
type MAct struct {
	Conn int `json:"conn"`
	N    int `json:"n"`
}

// MultiReadCase is several connections of one process reading conformant
// streams with their reads interleaved (the decompressors come from
// process-wide pools).
type MultiReadCase struct {
	Conns []ReadCase `json:"conns"`
	Sched []MAct     `json:"sched"`
}

func genMultiReadCase(t *rapid.T) MultiReadCase {
	var c MultiReadCase
	n := rapid.IntRange(2, 3).Draw(t, "nconns")
	for i := 0; i < n; i++ {
		var rc ReadCase
		rc.R = genReaderCfg(t)
		rc.R.Compress = rapid.IntRange(0, 3).Draw(t, "compress") > 0
		rc.S = genStream(t, SGenOpts{MaxMsgs: 4, Compression: rc.R.Compress, R: rc.R.ReadBuf, MaxLen: 400, NoClose: true})
		c.Conns = append(c.Conns, rc)
	}
	c.Sched = rapid.SliceOfN(rapid.Custom(func(t *rapid.T) MAct {
		return MAct{Conn: rapid.IntRange(0, n-1).Draw(t, "conn"), N: rapid.SampledFrom([]int{-1, -1, -1, 0, 1, 3, 10, 100}).Draw(t, "n")}
	}), 0, 30).Draw(t, "sched")
	return c
}

type mconn struct {
	conn  *websocket.Conn
	model *Model
	cur   io.Reader
	curMT int
	got   []byte
	idx   int // index of the message being read
	dead  error
	done  bool
}

func checkC03Multi(c MultiReadCase, o *Obs) error {
	conns := make([]*mconn, len(c.Conns))
	for i, rc := range c.Conns {
		m := BuildStream(rc.S, rc.R.Server, rc.R.Compress)
		tr := xport.NewScriptConn(nil, nil)
		tr.NoLog = true
		conn, err := NewConn(rc.R, tr, nil)
		if err != nil {
			return err
		}
		tr.SetInput(m.Wire, rc.Chunks)
		conns[i] = &mconn{conn: conn, model: m}
	}
	finish := func(i int, mc *mconn, complete bool) error {
		if mc.idx >= len(mc.model.Msgs) {
			return fmt.Errorf("connection %d: a message beyond the %d its stream encodes was delivered", i, len(mc.model.Msgs))
		}
		want := mc.model.Msgs[mc.idx]
		if mc.curMT != want.Type {
			return fmt.Errorf("connection %d message %d: type %d, stream says %d", i, mc.idx, mc.curMT, want.Type)
		}
		if complete && !bytes.Equal(mc.got, want.Payload) {
			return fmt.Errorf("connection %d message %d (compressed=%v): delivered %d bytes differ from its own stream's payload (%d bytes) at byte %d while %d connections read interleaved - state shared between connections?", i, mc.idx, want.Compressed, len(mc.got), len(want.Payload), firstDiff(mc.got, want.Payload), len(conns))
		}
		if !complete && (len(mc.got) > len(want.Payload) || !bytes.Equal(mc.got, want.Payload[:len(mc.got)])) {
			return fmt.Errorf("connection %d message %d: the %d bytes read are not a prefix of its payload (interleaved readers)", i, mc.idx, len(mc.got))
		}
		mc.cur, mc.got = nil, nil
		mc.idx++
		return nil
	}
	step := func(i int, n int) error {
		mc := conns[i]
		if mc.done {
			return nil
		}
		if n == 0 && mc.cur != nil {
			return finish(i, mc, false)
		}
		if mc.cur == nil {
			mt, r, err := mc.conn.NextReader()
			if err != nil {
				mc.done = true
				if mc.idx != len(mc.model.Msgs) {
					return fmt.Errorf("connection %d: only %d of %d messages delivered, then %v (interleaved readers)", i, mc.idx, len(mc.model.Msgs), err)
				}
				return nil
			}
			mc.cur, mc.curMT = r, mt
			if n == 0 {
				return nil
			}
		}
		if n < 0 {
			b, err := io.ReadAll(mc.cur)
			mc.got = append(mc.got, b...)
			if err != nil {
				return fmt.Errorf("connection %d message %d: read failed after %d bytes: %v (interleaved readers)", i, mc.idx, len(mc.got), err)
			}
			return finish(i, mc, true)
		}
		buf := make([]byte, n)
		k, err := mc.cur.Read(buf)
		mc.got = append(mc.got, buf[:k]...)
		if err == io.EOF {
			return finish(i, mc, true)
		}
		if err != nil {
			return fmt.Errorf("connection %d message %d: read failed after %d bytes: %v (interleaved readers)", i, mc.idx, len(mc.got), err)
		}
		return nil
	}
	for _, a := range c.Sched {
		if err := step(a.Conn%len(conns), a.N); err != nil {
			return err
		}
	}
	// drain: round robin, whole messages
	for round := 0; round < 20; round++ {
		for i := range conns {
			if err := step(i, -1); err != nil {
				return err
			}
		}
	}
	open, comp := 0, 0
	for i, mc := range conns {
		if !mc.done {
			return fmt.Errorf("connection %d did not reach the end of its stream", i)
		}
		for _, m := range mc.model.Msgs {
			if m.Compressed {
				comp++
			}
		}
		_ = open
	}
	o.ClassIf(comp >= 2, "two_plus_compressed_messages")
	o.Class(fmt.Sprintf("conns_%d", len(conns)))
	if comp >= 2 {
		o.NonTrivial("")
	}
	return nil
}
