package props

import (
	"bufio"
	"bytes"
	"context"
	"crypto/tls"
	"errors"
	"fmt"
	"io"
	"net"
	"net/http"
	"net/http/cookiejar"
	"net/http/httptrace"
	"net/url"
	"strings"
	"time"

	"github.com/gorilla/websocket"
	"pgregory.net/rapid"

	"verifharness/wsref"
	"verifharness/xport"
)

// FuzzCase is one untrusted input for one of the four entry points of C07.
type FuzzCase struct {
	// Entry: frames | dialreply | proxyreply | headers
	Entry    string `json:"entry"`
	Server   bool   `json:"server,omitempty"`
	Compress bool   `json:"compress,omitempty"`
	ReadBuf  int    `json:"rbuf,omitempty"`
	Limit    int64  `json:"limit,omitempty"`
	// ReadMsg: drain with ReadMessage instead of NextReader+Read.
	ReadMsg bool `json:"readmsg,omitempty"`
	// PreBuf (server, entry frames): this many input bytes arrived together
	// with the handshake request and sit in the hijacked bufio.Reader.
	PreBuf int    `json:"prebuf,omitempty"`
	Data   []byte `json:"data"`
	Chunks []int  `json:"chunks,omitempty"`
	// Headers for entry "headers": name -> values (canonical names).
	Headers map[string][]string `json:"headers,omitempty"`
	Method  string              `json:"method,omitempty"`
	Host    string              `json:"host,omitempty"`
	Subs    []string            `json:"subs,omitempty"`
	// ReadJSON: the frames are drained with ReadJSON.
	ReadJSON bool `json:"read_json,omitempty"`
	// App (frames): what the application does around its reads. Bit 0: it
	// restores the default handlers with Set...Handler(nil) before reading;
	// bit 1: it reads the connection as one stream through JoinMessages with a
	// terminator, and reads that stream a few more times after its first error;
	// bit 2: it has sent its own close frame before it reads; bit 3: every
	// transport write fails with a plain error.
	App int `json:"app,omitempty"`
	// DialOpts (dialreply): bit 0 a TLSClientConfig is set (unused for ws://),
	// bit 1 a cookie Jar, bit 2 a HandshakeTimeout, bit 3 Dial goes through
	// DialContext with an httptrace.ClientTrace.
	DialOpts int `json:"dial_opts,omitempty"`
	// ManyFrames > 0: Data is generated as one text message of that many empty
	// continuation frames (every fourth followed by an empty pong).
	ManyFrames int `json:"many_frames,omitempty"`
}

const c07AllocBase = 4 << 20

// c07Generated is the size of the input a case generated for itself
// (ManyFrames): it counts as bytes received in the allocation bound.
var c07Generated int

func checkC07(c FuzzCase, o *Obs) error {
	before := heapAllocs()
	var err error
	var reached bool
	switch c.Entry {
	case "frames":
		reached, err = fuzzFrames(c)
	case "dialreply":
		reached, err = fuzzDialReply(c)
	case "proxyreply":
		seen := proxyRefusalSeen
		reached, err = fuzzProxyReply(c)
		if proxyRefusalSeen > seen {
			o.Class("proxy_complete_refusal")
		}
	case "headers":
		reached, err = fuzzHeaders(c)
	default:
		return nil
	}
	if err != nil {
		return err
	}
	allocated := heapAllocs() - before
	n := len(c.Data) + c07Generated
	c07Generated = 0
	for _, vs := range c.Headers {
		for _, v := range vs {
			n += len(v)
		}
	}
	if allocated > c07AllocBase+uint64(n)*2048 {
		return fmt.Errorf("%s: %d bytes allocated for an input of %d bytes", c.Entry, allocated, n)
	}
	o.Class("entry_" + c.Entry)
	o.ClassIf(c.Entry == "frames" && c.ReadJSON, "frames_drained_with_ReadJSON")
	if reached {
		o.Class("reached_logic_" + c.Entry)
		o.NonTrivial("")
	}
	return nil
}

// fuzzFrames feeds arbitrary bytes as a frame stream and drains the
// connection until the first error.
func fuzzFrames(c FuzzCase) (bool, error) {
	tr := xport.NewScriptConn(nil, nil)
	tr.NoLog = true
	if c.ManyFrames > 0 && c.ManyFrames%2 == 1 {
		// odd counts: very many control frames BETWEEN messages - a run of empty
		// pongs, then small messages each preceded by three control frames
		masked := c.Server
		var d []byte
		ctl := func(i int, op byte) {
			d = wsref.AppendFrame(d, wsref.Frame{Fin: true, Opcode: op, Masked: masked, Key: [4]byte{9, byte(i), 9, byte(i >> 8)}})
		}
		for i := 0; i < c.ManyFrames; i++ {
			ctl(i, wsref.OpPong)
		}
		for m := 0; m < c.ManyFrames/4; m++ {
			ctl(m, wsref.OpPong)
			ctl(m, wsref.OpPing)
			ctl(m, wsref.OpPong)
			d = wsref.AppendFrame(d, wsref.Frame{Fin: true, Opcode: wsref.OpText, Masked: masked, Key: [4]byte{1, 2, byte(m), 4}, Payload: []byte("m")})
		}
		c.Data = d
	} else if c.ManyFrames > 0 {
		masked := c.Server
		d := wsref.AppendFrame(nil, wsref.Frame{Opcode: wsref.OpText, Masked: masked, Key: [4]byte{1, 2, 3, 4}, Payload: []byte("x")})
		for i := 0; i < c.ManyFrames; i++ {
			d = wsref.AppendFrame(d, wsref.Frame{Opcode: 0, Masked: masked, Key: [4]byte{byte(i), 2, 3, 4}})
			if i%4 == 3 {
				d = wsref.AppendFrame(d, wsref.Frame{Fin: true, Opcode: wsref.OpPong, Masked: masked, Key: [4]byte{9, 9, 9, byte(i)}})
			}
		}
		c.Data = wsref.AppendFrame(d, wsref.Frame{Fin: true, Opcode: 0, Masked: masked, Key: [4]byte{4, 3, 2, 1}, Payload: []byte("y")})
		tr.TrackDepth = true
		defer func() {
			if tr.MaxDepth >= 400 {
				observe("frames: the transport was read from a call stack %d frames deep while a message of %d empty fragments was received: the depth grows with the number of frames (unbounded recursion; a long enough message exhausts the stack)", tr.MaxDepth, c.ManyFrames)
			}
		}()
	}
	if c.ManyFrames > 0 {
		c07Generated = len(c.Data)
	}
	var conn *websocket.Conn
	var err error
	if c.Server && c.PreBuf > 0 && len(c.Data) > 0 {
		k := c.PreBuf
		if k > len(c.Data) {
			k = len(c.Data)
		}
		if k > 4096 {
			k = 4096
		}
		tr.SetInput(c.Data, append([]int{k}, c.Chunks...))
		br := bufio.NewReaderSize(tr, 4096)
		br.Peek(1)
		w := &fakeRW{conn: tr, brw: bufio.NewReadWriter(br, bufio.NewWriterSize(tr, 4096))}
		u := websocket.Upgrader{ReadBufferSize: c.ReadBuf, EnableCompression: c.Compress, CheckOrigin: allowOrigin}
		conn, err = u.Upgrade(w, upgradeRequest(c.Compress), nil)
		if err != nil {
			return false, fmt.Errorf("harness: Upgrade failed: %v", err)
		}
	} else {
		conn, err = NewConn(ConnCfg{Server: c.Server, Compress: c.Compress, ReadBuf: c.ReadBuf}, tr, nil)
		if err != nil {
			return false, err
		}
		tr.SetInput(c.Data, c.Chunks)
	}
	if c.Limit > 0 {
		conn.SetReadLimit(c.Limit)
	}
	tr.WritesNoDeadline = 0 // the handshake is over; from here on the library writes only replies
	defer func() {
		if tr.WritesNoDeadline > 0 {
			observe("frames: %d automatic replies (pong, close) were written with no write deadline armed: a peer that sends them and never reads blocks the reading application for ever", tr.WritesNoDeadline)
		}
	}()
	if c.App&4 != 0 {
		// the application started the closing handshake itself and keeps reading
		conn.WriteControl(websocket.CloseMessage, websocket.FormatCloseMessage(1000, ""), time.Now().Add(time.Minute))
	}
	if c.App&8 != 0 {
		// nothing can be written any more (plain, non-net error)
		tr.SetWriteFault(&xport.WriteFault{K: 0, Kind: xport.FaultError})
	}
	if c.App&1 != 0 {
		conn.SetPingHandler(nil)
		conn.SetPongHandler(nil)
		conn.SetCloseHandler(nil)
	}
	accepted := 0
	maxIter := len(c.Data)/2 + 8
	if c.App&2 != 0 {
		jr := websocket.JoinMessages(conn, "\n")
		n, jerr := io.Copy(io.Discard, io.LimitReader(jr, int64(len(c.Data))*1100+1<<16))
		if jerr == nil && n < int64(len(c.Data))*1100+1<<16 {
			// io.Copy swallows io.EOF only: the joined stream ended "cleanly",
			// which it does when NextReader reports io.EOF
			jerr = io.EOF
		}
		for i := 0; i < 3 && jerr != nil; i++ {
			var b [16]byte
			if k, e := jr.Read(b[:]); e == nil && k == 0 {
				// (0, nil) is allowed of an io.Reader, but not for ever
				continue
			}
		}
		if n > 0 {
			accepted++
		}
		// the joined stream also ends on an error inside a message body (corrupt
		// deflate data), which leaves the connection usable: the drain goes on
	}
	for i := 0; ; i++ {
		if i > maxIter {
			return true, fmt.Errorf("frames: %d NextReader calls succeeded on %d input bytes: the reader loops without consuming input", i, len(c.Data))
		}
		if c.ReadJSON {
			// the application consumes the stream through ReadJSON: decoder
			// errors (syntax, type) leave the connection usable, anything else
			// ends the drain
			var v interface{}
			err := conn.ReadJSON(&v)
			if err != nil && isConnLevelErr(err) {
				// ReadJSON does not say whether opening the message or its body
				// (e.g. corrupt deflate data) failed; only the former ends the
				// connection: ask NextReader
				_, r, nerr := conn.NextReader()
				if nerr != nil {
					break
				}
				io.Copy(io.Discard, io.LimitReader(r, int64(len(c.Data))*1100+1<<16))
			}
			accepted++
			continue
		}
		if c.ReadMsg {
			mt, p, err := conn.ReadMessage()
			if err != nil {
				if mt == websocket.TextMessage || mt == websocket.BinaryMessage {
					// the message body failed (e.g. corrupt deflate data);
					// the connection itself may go on
					accepted++
					continue
				}
				break
			}
			accepted++
			if int64(len(p)) > int64(len(c.Data))*1100+1<<16 {
				return true, fmt.Errorf("frames: ReadMessage returned %d bytes from %d input bytes", len(p), len(c.Data))
			}
			continue
		}
		_, r, err := conn.NextReader()
		if err != nil {
			break
		}
		accepted++
		var total int64
		buf := make([]byte, 4096)
		zero := 0
		for {
			n, e := r.Read(buf)
			total += int64(n)
			if e != nil {
				break
			}
			if n == 0 {
				zero++
				if zero > 1000 {
					return true, errors.New("frames: message reader returns (0, nil) forever")
				}
			}
			if total > int64(len(c.Data))*1100+1<<16 {
				return true, fmt.Errorf("frames: %d bytes delivered from %d input bytes", total, len(c.Data))
			}
		}
	}
	// the documented panic needs 1000 failing reads; a handful more must be safe
	for i := 0; i < 3; i++ {
		if _, _, err := conn.NextReader(); err == nil {
			return true, errors.New("frames: NextReader succeeded after it had failed")
		}
	}
	return accepted > 0 || len(tr.Wrote) > 0, nil
}

// replyConn answers the n-th request written to it (requests end with a blank
// line) with replies[n]; the token $ACCEPT in a reply is replaced by the
// accept value of that request's key.
type replyConn struct {
	*xport.ScriptConn
	buf     []byte
	replies [][]byte
	n       int
	Reqs    [][]byte
	// ReplyFunc, if set, computes the reply to the n-th request instead of replies[n].
	ReplyFunc func(n int, req []byte) []byte
}

func newReplyConn(replies ...[]byte) *replyConn { return newReplyConnChunked(nil, replies...) }

// newReplyConnChunked delivers the replies under the given read chunking.
func newReplyConnChunked(chunks []int, replies ...[]byte) *replyConn {
	rc := &replyConn{ScriptConn: xport.NewScriptConn(nil, chunks), replies: replies}
	rc.ScriptConn.NoLog = true
	rc.ScriptConn.OnWrite = func(c *xport.ScriptConn, p []byte) {
		rc.buf = append(rc.buf, p...)
		for {
			i := bytes.Index(rc.buf, []byte("\r\n\r\n"))
			if i < 0 {
				return
			}
			req := rc.buf[:i+4]
			rc.buf = rc.buf[i+4:]
			rc.Reqs = append(rc.Reqs, append([]byte(nil), req...))
			if rc.ReplyFunc != nil {
				c.AppendInputLocked(rc.ReplyFunc(rc.n, req))
			} else if rc.n < len(rc.replies) {
				rep := rc.replies[rc.n]
				if bytes.Contains(rep, []byte("$ACCEPT")) {
					rep = bytes.ReplaceAll(rep, []byte("$ACCEPT"), []byte(wsref.AcceptKey(headerValue(req, "Sec-WebSocket-Key"))))
				}
				c.AppendInputLocked(rep)
			}
			rc.n++
		}
	}
	return rc
}

func headerValue(req []byte, name string) string {
	for _, line := range strings.Split(string(req), "\r\n") {
		if k, v, ok := strings.Cut(line, ":"); ok && strings.EqualFold(k, name) {
			return strings.TrimSpace(v)
		}
	}
	return ""
}

func fuzzDialReply(c FuzzCase) (bool, error) {
	rc := newReplyConn(c.Data)
	d := websocket.Dialer{
		NetDialContext:    func(ctx context.Context, network, addr string) (net.Conn, error) { return rc, nil },
		EnableCompression: c.Compress,
		ReadBufferSize:    c.ReadBuf,
		Subprotocols:      c.Subs,
	}
	if c.DialOpts&1 != 0 {
		d.TLSClientConfig = &tls.Config{ServerName: "example.com", NextProtos: []string{"http/1.1"}}
	}
	if c.DialOpts&2 != 0 {
		d.Jar, _ = cookiejar.New(nil)
	}
	if c.DialOpts&4 != 0 {
		d.HandshakeTimeout = time.Hour
	}
	ctx := context.Background()
	if c.DialOpts&8 != 0 {
		ctx = httptrace.WithClientTrace(ctx, &httptrace.ClientTrace{
			GetConn:              func(string) {},
			GotConn:              func(httptrace.GotConnInfo) {},
			GotFirstResponseByte: func() {},
			WroteHeaders:         func() {},
			WroteRequest:         func(httptrace.WroteRequestInfo) {},
		})
	}
	conn, resp, err := d.DialContext(ctx, "ws://example.com/x", nil)
	if err == nil && conn == nil {
		return false, errors.New("dialreply: Dial returned neither a connection nor an error")
	}
	if err != nil && conn != nil {
		return false, errors.New("dialreply: Dial returned a connection together with an error")
	}
	if conn != nil {
		// whatever followed the reply is frame input
		for i := 0; i < 50; i++ {
			_, r, e := conn.NextReader()
			if e != nil {
				break
			}
			io.Copy(io.Discard, io.LimitReader(r, 1<<20))
		}
	}
	return resp != nil, nil
}

const okHandshake = "HTTP/1.1 101 Switching Protocols\r\nUpgrade: websocket\r\nConnection: Upgrade\r\nSec-WebSocket-Accept: $ACCEPT\r\n\r\n"

func fuzzProxyReply(c FuzzCase) (bool, error) {
	rc := newReplyConn(c.Data, []byte(okHandshake))
	purl, _ := url.Parse("http://user:pw@proxy.test:3128")
	d := websocket.Dialer{
		NetDialContext: func(ctx context.Context, network, addr string) (net.Conn, error) { return rc, nil },
		Proxy:          func(*http.Request) (*url.URL, error) { return purl, nil },
	}
	conn, _, err := d.Dial("ws://backend.test/x", nil)
	if err == nil && conn == nil {
		return false, errors.New("proxyreply: Dial returned neither a connection nor an error")
	}
	if err != nil && conn != nil {
		return false, errors.New("proxyreply: Dial returned a connection together with an error")
	}
	// A complete refusal (well-formed head, status other than 200) is an
	// error return at once: a Dial that goes on asking the proxy connection
	// for bytes would wait forever on a proxy that stays silent.
	if ref, perr := wsref.ParseResponseStrict(c.Data); perr == nil && ref.Code != 200 && ref.Code >= 100 && strings.HasPrefix(ref.Proto, "HTTP/1.") && len(ref.Proto) == 8 {
		proxyRefusalSeen++
		if err == nil {
			return false, fmt.Errorf("proxyreply: the proxy refused CONNECT with status %d, yet Dial returned a connection", ref.Code)
		}
		if rc.Starved > 0 {
			return false, fmt.Errorf("proxyreply: after the complete refusal head (status %d, %d further bytes) Dial asked the proxy connection for more input %d time(s); with a proxy that stays silent it never returns", ref.Code, len(ref.Rest), rc.Starved)
		}
	}
	// reached the CONNECT reply parser if a CONNECT was sent
	return len(rc.Reqs) >= 1, nil
}

func fuzzHeaders(c FuzzCase) (bool, error) {
	h := http.Header{}
	for k, vs := range c.Headers {
		h[k] = append([]string(nil), vs...)
	}
	method := c.Method
	if method == "" {
		method = "GET"
	}
	host := c.Host
	if host == "" {
		host = "example.com"
	}
	r := &http.Request{Method: method, URL: &url.URL{Path: "/"}, Proto: "HTTP/1.1", ProtoMajor: 1, ProtoMinor: 1, Header: h, Host: host}
	_ = websocket.Subprotocols(r)
	_ = websocket.IsWebSocketUpgrade(r)
	for _, comp := range []bool{false, true} {
		tr := xport.NewScriptConn(nil, nil)
		tr.NoLog = true
		w := &fakeRW{conn: tr, brw: bufio.NewReadWriter(bufio.NewReaderSize(tr, 4096), bufio.NewWriterSize(tr, 4096))}
		u := websocket.Upgrader{EnableCompression: comp, Subprotocols: c.Subs}
		conn, err := u.Upgrade(w, r, nil)
		if (conn == nil) == (err == nil) {
			return false, fmt.Errorf("headers: Upgrade returned conn=%v err=%v", conn != nil, err)
		}
		if conn == nil && w.hijacked > 0 && tr.Closed == 0 {
			return false, errors.New("headers: Upgrade failed after hijacking without closing the connection")
		}
	}
	// the same values through net/http's request parser, when it accepts them
	var sb strings.Builder
	fmt.Fprintf(&sb, "GET / HTTP/1.1\r\nHost: %s\r\n", host)
	for k, vs := range c.Headers {
		for _, v := range vs {
			fmt.Fprintf(&sb, "%s: %s\r\n", k, v)
		}
	}
	sb.WriteString("\r\n")
	reached := false
	if pr, err := http.ReadRequest(bufio.NewReader(strings.NewReader(sb.String()))); err == nil {
		reached = true
		_ = websocket.Subprotocols(pr)
		_ = websocket.IsWebSocketUpgrade(pr)
		tr := xport.NewScriptConn(nil, nil)
		tr.NoLog = true
		w := &fakeRW{conn: tr, brw: bufio.NewReadWriter(bufio.NewReaderSize(tr, 4096), bufio.NewWriterSize(tr, 4096))}
		u := websocket.Upgrader{EnableCompression: true, Subprotocols: c.Subs}
		conn, err := u.Upgrade(w, pr, nil)
		if (conn == nil) == (err == nil) {
			return false, fmt.Errorf("headers: Upgrade returned conn=%v err=%v", conn != nil, err)
		}
	}
	return reached, nil
}

// ---------------------------------------------------------------- generators

func mutateBytes(t *rapid.T, b []byte) []byte {
	out := append([]byte(nil), b...)
	n := rapid.IntRange(0, 4).Draw(t, "nmut")
	for i := 0; i < n; i++ {
		if len(out) == 0 {
			out = append(out, rapid.SliceOfN(rapid.Byte(), 1, 8).Draw(t, "seedbytes")...)
			continue
		}
		pos := rapid.IntRange(0, len(out)-1).Draw(t, "mpos")
		switch rapid.IntRange(0, 7).Draw(t, "mkind") {
		case 0: // bit flip
			out[pos] ^= 1 << uint(rapid.IntRange(0, 7).Draw(t, "bit"))
		case 1: // truncate
			out = out[:pos]
		case 2: // set byte to hostile value
			out[pos] = rapid.SampledFrom([]byte{0x00, 0x7e, 0x7f, 0x80, 0xfe, 0xff, 0x88, 0x89, 0x8a, 0xc1, 0x01}).Draw(t, "hostile")
		case 3: // overwrite 8 bytes with an extreme length
			v := rapid.SampledFrom([]uint64{0, 1<<63 - 1, 1 << 63, 1<<64 - 1, 1 << 31, 1 << 32, 65536, 1 << 62}).Draw(t, "extreme")
			for k := 0; k < 8 && pos+k < len(out); k++ {
				out[pos+k] = byte(v >> (56 - 8*uint(k)))
			}
		case 4: // insert random bytes
			ins := rapid.SliceOfN(rapid.Byte(), 1, 12).Draw(t, "ins")
			out = append(out[:pos], append(ins, out[pos:]...)...)
		case 5: // duplicate a slice
			end := rapid.IntRange(pos, len(out)).Draw(t, "dupend")
			out = append(out[:end], append(append([]byte(nil), out[pos:end]...), out[end:]...)...)
		case 6: // delete a slice
			end := rapid.IntRange(pos, len(out)).Draw(t, "delend")
			out = append(out[:pos], out[end:]...)
		default: // splice a control frame header
			hdr := rapid.SampledFrom([][]byte{{0x89, 0x00}, {0x8a, 0x7d}, {0x88, 0x02, 0x03, 0xe8}, {0x09, 0x00}, {0x89, 0x7e, 0x00, 0x7e}, {0x88, 0x80, 1, 2, 3, 4}, {0xc1, 0x01, 0x00}}).Draw(t, "hdr")
			out = append(out[:pos], append(append([]byte(nil), hdr...), out[pos:]...)...)
		}
	}
	return out
}

// jsonishPool: message bodies for the ReadJSON drain - single values, values
// followed by more values or by garbage, truncated and empty documents.
var jsonishPool = []string{
	`{"a":1}`, `[1,2,3]`, `"x"`, `7`, ` null `, `{"a":1} x`, `7q`, `{"a":1}{"b":2}`, `[1] [2] [3]`, `{"a":1},`, `1 2 3 oops`,
	`{"a":`, `[`, `"unterminated`, ``, ` `, `}`, `]`, `{"a":1}]`, `nul`, `truefalse`, `{"k":"\u00zz"}`, `[1,]`, `{"a":1}` + "\x00", "\xff\xfe",
	`{"deep":[[[[[[[[[[[[[[[[[[[[[[[[[[[[[[[[1]]]]]]]]]]]]]]]]]]]]]]]]]]]]]]]]}`, `123456789012345678901234567890e9999`, `"a" "b" c`,
}

// proxyRefusalSeen counts proxyreply cases with a complete refusal head.
var proxyRefusalSeen int

var replyTemplates = []string{
	okHandshake,
	"HTTP/1.1 403 Forbidden\r\nContent-Length: 268435456\r\n\r\ndenied",
	"HTTP/1.1 403 Forbidden\r\nContent-Length: 9223372036854775807\r\n\r\ndenied",
	"HTTP/1.1 500 Oops\r\nContent-Length: 4294967296\r\nContent-Type: text/plain\r\n\r\n",
	"HTTP/1.1 101 Switching Protocols\r\nUpgrade: websocket\r\nConnection: Upgrade\r\nSec-WebSocket-Accept: $ACCEPT\r\nSec-WebSocket-Extensions: permessage-deflate; server_no_context_takeover; client_no_context_takeover; server_max_window_bits=16\r\n\r\n",
	"HTTP/1.1 101 Switching Protocols\r\nUpgrade: websocket\r\nConnection: Upgrade\r\nSec-WebSocket-Accept: $ACCEPT\r\nSec-WebSocket-Extensions: permessage-deflate; server_no_context_takeover; client_no_context_takeover; client_max_window_bits=0; server_max_window_bits=\"7\"\r\n\r\n",
	"HTTP/1.1 101 Switching Protocols\r\nUpgrade: websocket\r\nConnection: Upgrade\r\nSec-WebSocket-Accept: $ACCEPT\r\nSec-WebSocket-Extensions: permessage-deflate; server_no_context_takeover; client_no_context_takeover; server_max_window_bits=-1; client_max_window_bits=99999999999999999999\r\n\r\n",
	"HTTP/1.1 101 Switching Protocols\r\nUpgrade: websocket\r\nConnection: Upgrade\r\nSec-WebSocket-Accept: $ACCEPT\r\nSec-WebSocket-Protocol: chat\r\nSec-WebSocket-Protocol: other\r\nSet-Cookie: a=b\r\nSec-WebSocket-Version: 13\r\n\r\n",
	"HTTP/1.1 403 Forbidden\r\nContent-Length: 100\r\n\r\ndenied",
	"HTTP/1.1 403 Forbidden\r\nTransfer-Encoding: chunked\r\n\r\n6\r\ndenied\r\n",
	"HTTP/1.1 503 Service Unavailable\r\nTransfer-Encoding: chunked\r\n\r\n",
	"HTTP/1.0 502 Bad Gateway\r\nContent-Length: 7\r\n\r\n",
	"HTTP/1.1 101 Switching Protocols\r\nUpgrade: websocket\r\nConnection: Upgrade\r\nSec-WebSocket-Accept: $ACCEPT\r\nSec-WebSocket-Extensions: permessage-deflate; server_no_context_takeover; client_no_context_takeover\r\nSec-WebSocket-Protocol: chat\r\n\r\n\x81\x02hi",
	"HTTP/1.1 101\r\nUpgrade: websocket\r\nConnection: Upgrade\r\nSec-WebSocket-Accept: $ACCEPT\r\n\r\n",
	"HTTP/1.1 200 OK\r\nContent-Length: 5\r\n\r\nhello",
	"HTTP/1.1 200\r\n\r\n",
	"HTTP/1.1 407\r\n\r\n",
	"HTTP/1.1 407 Proxy Authentication Required\r\nProxy-Authenticate: Basic\r\n\r\n",
	"HTTP/1.0 200 Connection established\r\n\r\n",
	"HTTP/1.1 403 Forbidden\r\nTransfer-Encoding: chunked\r\n\r\n5\r\nhello\r\n0\r\n\r\n",
	"HTTP/1.1 101 Switching Protocols\r\nUpgrade: websocket\r\nConnection: Upgrade\r\nSec-WebSocket-Accept: $ACCEPT\r\nSec-WebSocket-Extensions: permessage-deflate; client_max_window_bits=\"\\\r\n\r\n",
	"HTTP/1.1 101 Switching Protocols\r\nUpgrade: websocket\r\nConnection: Upgrade\r\nSec-WebSocket-Accept: $ACCEPT\r\nSec-WebSocket-Extensions: foo; a=\"b\\\"c\", permessage-deflate; server_no_context_takeover\r\n\r\n",
	"HTTP/1.1 101 Switching Protocols\r\nUpgrade: websocket\r\nConnection: Upgrade\r\nSec-WebSocket-Accept: $ACCEPT\r\nSet-Cookie: a=1; Secure\r\nSet-Cookie: b=2\r\nSet-Cookie: c=3; Secure; HttpOnly\r\nSet-Cookie: d=4; Secure\r\n\r\n",
	"HTTP/1.1 403 Forbidden\r\nSet-Cookie: a=1; Secure\r\nSet-Cookie: =; Secure\r\nSet-Cookie: x; Domain=.com; Max-Age=-1; Secure\r\nSet-Cookie: ;;;\r\nContent-Length: 0\r\n\r\n",
	"HTTP/1.1 000 \r\n\r\n",
	"HTTP/1.1 99999999999999999999 x\r\n\r\n",
	"HTTP/1.1  \r\n\r\n",
	"HTTP/9.9 200 OK\r\n\r\n",
	"\r\n\r\n",
	"",
}

var headerValuePool = []string{
	"", "upgrade", "Upgrade", "websocket", "keep-alive, Upgrade", "13", "8, 13", sampleKey, "chat, superchat",
	"permessage-deflate", "permessage-deflate; client_max_window_bits", "permessage-deflate; a=\"b\\", "x; y=\"", "\"", "\\", "a=\"\\\"\"",
	"foo; bar=\"baz\\", ",", ";", ",,;;==", "\x00", "http://example.com", "http://[::1", "://", "null", "é", strings.Repeat(",", 200), strings.Repeat("a;", 100),
	"permessage-deflate; server_no_context_takeover; client_no_context_takeover", "x=\"" + strings.Repeat("\\", 31) + "\"",
	// key-shaped values around the 24-character / 16-byte boundary
	"AAAAAAAAAAAAAAAAAAAAAAAA", "AAAAAAAAAAAAAAAAAAAAAAA=", "AAAAAAAAAAAAAAAAAAAAAA", "AAAAAAAAAAAAAAAAAAAAAA=", "AAAAAAAAAAAAAAAAAAAAAAAAAA==", "AAAAAAAAAAAAAAAAAAAAAAAAAAA=",
	"AAAAAAAAAAAAAAAAAAAAAAAAAAAAAAAA", "====", "AAAA====", "AAAAAAAAAAAAAAAAAAAAAA==\n", "/+/+/+/+/+/+/+/+/+/+/+/+", "AAAAAAAAAAAAAAAAAAAA", "AAAAAAAAAAAAAAAAAAAAAAAAAAAAAAAAAAAAAAAAAAA=",
}

var fuzzHeaderNames = []string{"Connection", "Upgrade", "Sec-Websocket-Version", "Sec-Websocket-Key", "Sec-Websocket-Protocol", "Sec-Websocket-Extensions", "Origin"}

func genHeaderValue(t *rapid.T) string {
	switch rapid.IntRange(0, 4).Draw(t, "hv_kind") {
	case 4: // base64-alphabet strings of 20..28 characters with 0-2 padding characters
		n := rapid.IntRange(20, 28).Draw(t, "hv_b64len")
		b := []byte(rapid.StringOfN(rapid.RuneFrom([]rune("ABCDabcd0189+/")), n, n, -1).Draw(t, "hv_b64"))
		for i := 0; i < rapid.IntRange(0, 2).Draw(t, "hv_pad") && i < len(b); i++ {
			b[len(b)-1-i] = '='
		}
		return string(b)
	case 0:
		return rapid.SampledFrom(headerValuePool).Draw(t, "hv_pool")
	case 1:
		return string(mutateBytes(t, []byte(rapid.SampledFrom(headerValuePool).Draw(t, "hv_pool"))))
	case 2:
		return rapid.StringOfN(rapid.RuneFrom([]rune("abc,;=\"\\ \t\x00\x7fé-_.13/:[]@")), 0, 40, -1).Draw(t, "hv_str")
	default:
		return string(rapid.SliceOfN(rapid.Byte(), 0, 24).Draw(t, "hv_raw"))
	}
}

func genFuzzCase(t *rapid.T) FuzzCase {
	var c FuzzCase
	c.Entry = rapid.SampledFrom([]string{"frames", "frames", "dialreply", "proxyreply", "headers"}).Draw(t, "entry")
	switch c.Entry {
	case "frames":
		c.Server = rapid.Bool().Draw(t, "server")
		c.Compress = rapid.Bool().Draw(t, "compress")
		c.ReadBuf = rapid.SampledFrom([]int{0, 0, 1, 125, 126, 200}).Draw(t, "rbuf")
		if rapid.IntRange(0, 3).Draw(t, "haslimit") == 0 {
			c.Limit = int64(rapid.IntRange(1, 300).Draw(t, "limit"))
		}
		c.ReadMsg = rapid.Bool().Draw(t, "readmsg")
		c.ReadJSON = rapid.IntRange(0, 5).Draw(t, "readjson") == 0
		rawKind := rapid.IntRange(0, 5).Draw(t, "raw")
		if c.ReadJSON && rapid.IntRange(0, 2).Draw(t, "jsonstream") > 0 {
			rawKind = 99
		}
		if rapid.IntRange(0, 24).Draw(t, "manyframes") == 0 {
			rawKind = 98
		}
		if rapid.IntRange(0, 3).Draw(t, "app") == 0 {
			c.App = rapid.IntRange(1, 15).Draw(t, "app_bits")
		}
		if rapid.IntRange(0, 11).Draw(t, "closecodes") == 0 {
			rawKind = 97
		}
		switch rawKind {
		case 97:
			// a ping, a message and a close frame whose status code is drawn from
			// every range boundary of the registry (and beyond)
			code := rapid.SampledFrom([]int{0, 1, 999, 1000, 1001, 1002, 1003, 1004, 1005, 1006, 1007, 1008, 1009, 1010, 1011, 1012, 1013, 1014, 1015, 1016, 1099, 2999, 3000, 3999, 4000, 4999, 5000, 32767, 32768, 65535}).Draw(t, "close_code")
			reason := rapid.SampledFrom([]string{"", "bye", "\xff\xfe", string(make([]byte, 123))}).Draw(t, "close_reason")
			d := wsref.AppendFrame(nil, wsref.Frame{Fin: true, Opcode: wsref.OpPing, Masked: c.Server, Key: [4]byte{1, 1, 1, 1}, Payload: []byte("p")})
			d = wsref.AppendFrame(d, wsref.Frame{Fin: true, Opcode: wsref.OpText, Masked: c.Server, Key: [4]byte{2, 2, 2, 2}, Payload: []byte("hi")})
			d = wsref.AppendFrame(d, wsref.Frame{Fin: true, Opcode: wsref.OpClose, Masked: c.Server, Key: [4]byte{3, 3, 3, 3}, Payload: wsref.CloseBody(code, reason)})
			c.Data = d
		case 98:
			// one message of very many empty fragments (optionally with empty pongs
			// in between): a few bytes per frame, no payload at all
			c.ManyFrames = rapid.SampledFrom([]int{3000, 20000, 1501, 2401}).Draw(t, "nframes")
			c.ReadJSON, c.Limit, c.PreBuf = false, 0, 0
		case 99:
			// text messages holding JSON documents, well-formed or not
			var st Stream
			n := rapid.IntRange(1, 4).Draw(t, "njson")
			for i := 0; i < n; i++ {
				js := rapid.SampledFrom(jsonishPool).Draw(t, "jsonish")
				m := SMsg{Op: wsref.OpText, Data: Payload{Len: len(js), Kind: "raw", Raw: []byte(js)}}
				if rapid.Bool().Draw(t, "jfrag") {
					m.Frags = []int{rapid.IntRange(0, len(js)).Draw(t, "jfragsz")}
				}
				m.Compressed = c.Compress && rapid.Bool().Draw(t, "jcomp")
				st.Msgs = append(st.Msgs, m)
			}
			c.Data = BuildStream(st, c.Server, c.Compress).Wire
		case 0:
			c.Data = rapid.SliceOfN(rapid.Byte(), 0, 200).Draw(t, "rawbytes")
		case 1:
			// a conformant prefix followed by a header that claims a huge payload and a few bytes
			s := genStream(t, SGenOpts{MaxMsgs: 2, Compression: c.Compress, R: c.ReadBuf, MaxLen: 50, NoClose: true})
			m := BuildStream(s, c.Server, c.Compress)
			claim := rapid.SampledFrom([]uint64{65535, 65536, 1 << 24, 1 << 31, 1 << 32, 1 << 40, 1 << 62, 1<<63 - 1, 1 << 63, 1<<64 - 1}).Draw(t, "claim")
			f := wsref.Frame{Fin: rapid.Bool().Draw(t, "hfin"), Opcode: rapid.SampledFrom([]byte{1, 2, 0}).Draw(t, "hop"), Masked: c.Server, Key: [4]byte{1, 2, 3, 4}, Claim: &claim, LenForm: 64,
				Payload: rapid.SliceOfN(rapid.Byte(), 0, 20).Draw(t, "hpresent")}
			if claim == 65535 {
				f.LenForm = 16
			}
			c.Data = wsref.AppendFrame(append([]byte(nil), m.Wire...), f)
		default:
			s := genStream(t, SGenOpts{MaxMsgs: 3, Compression: c.Compress, R: c.ReadBuf, MaxLen: 300})
			m := BuildStream(s, c.Server, c.Compress)
			c.Data = mutateBytes(t, m.Wire)
		}
		c.Chunks = genChunks(t, "chunks", len(c.Data))
		if c.Server && rapid.IntRange(0, 2).Draw(t, "glued") == 0 {
			c.PreBuf = rapid.OneOf(rapid.IntRange(1, 20), rapid.IntRange(1, 600), rapid.SampledFrom([]int{125, 126, 127, 200, 201, 4096})).Draw(t, "prebuf")
			c.ReadBuf = rapid.SampledFrom([]int{0, 1, 125, 126, 200, 512}).Draw(t, "rbuf2")
		}
		if c.Limit > 0 && rapid.Bool().Draw(t, "nolimit") {
			c.Limit = 0
		}
	case "dialreply", "proxyreply":
		c.Compress = rapid.Bool().Draw(t, "compress")
		if rapid.IntRange(0, 4).Draw(t, "raw") == 0 {
			c.Data = rapid.SliceOfN(rapid.Byte(), 0, 120).Draw(t, "rawbytes")
		} else {
			c.Data = mutateBytes(t, []byte(rapid.SampledFrom(replyTemplates).Draw(t, "tmpl")))
		}
		if c.Entry == "dialreply" && rapid.Bool().Draw(t, "subs") {
			c.Subs = []string{"chat"}
		}
		if c.Entry == "dialreply" && rapid.Bool().Draw(t, "dial_opts") {
			c.DialOpts = rapid.IntRange(1, 15).Draw(t, "dial_opt_bits")
		}
	default:
		c.Headers = map[string][]string{
			"Connection":            {"Upgrade"},
			"Upgrade":               {"websocket"},
			"Sec-Websocket-Version": {"13"},
			"Sec-Websocket-Key":     {sampleKey},
		}
		n := rapid.IntRange(1, 3).Draw(t, "nhdr")
		for i := 0; i < n; i++ {
			name := rapid.SampledFrom(fuzzHeaderNames).Draw(t, "hname")
			nv := rapid.IntRange(1, 2).Draw(t, "nval")
			var vs []string
			for j := 0; j < nv; j++ {
				vs = append(vs, genHeaderValue(t))
			}
			c.Headers[name] = vs
		}
		if rapid.IntRange(0, 5).Draw(t, "sethost") == 0 {
			c.Host = genHeaderValue(t)
		}
		if rapid.IntRange(0, 3).Draw(t, "origin_from_host") == 0 {
			// an Origin that is a near copy of the Host: the default origin
			// policy compares the two byte by byte
			h := rapid.SampledFrom([]string{"a", "example.com", "example.com:8080", "[::1]:80"}).Draw(t, "ohost")
			mb := rapid.SampledFrom([]string{"м", "é", "世", "𝄞", "\u212a", "\xff", "\xc3"}).Draw(t, "omb")
			c.Host = h
			c.Headers["Origin"] = []string{"http://" + rapid.SampledFrom([]string{h[:len(h)-1] + mb, h + mb, mb + h, strings.ToUpper(h), h[:len(h)/2], h + "%", h[:len(h)-1] + "%e9"}).Draw(t, "oform")}
		}
		if rapid.Bool().Draw(t, "subs") {
			c.Subs = []string{"chat", "v2"}
		}
	}
	return c
}

// fuzzCaseFromBytes decodes a native-fuzzer input into a case: the first
// byte selects the entry point and options, the rest is the data.
func fuzzCaseFromBytes(entry string, b []byte) FuzzCase {
	c := FuzzCase{Entry: entry}
	if len(b) == 0 {
		return c
	}
	opt := b[0]
	b = b[1:]
	c.Server = opt&1 != 0
	c.Compress = opt&2 != 0
	if opt&4 != 0 {
		c.ReadBuf = 125
	}
	if opt&8 != 0 {
		c.Limit = int64(opt>>4) + 1
	}
	c.ReadMsg = opt&16 != 0
	if entry == "headers" {
		c.Headers = map[string][]string{
			"Connection":            {"Upgrade"},
			"Upgrade":               {"websocket"},
			"Sec-Websocket-Version": {"13"},
			"Sec-Websocket-Key":     {sampleKey},
		}
		name := fuzzHeaderNames[int(opt>>4)%len(fuzzHeaderNames)]
		parts := bytes.SplitN(b, []byte{'\n'}, 2)
		var vs []string
		for _, p := range parts {
			vs = append(vs, string(p))
		}
		c.Headers[name] = vs
		c.Subs = []string{"chat"}
		return c
	}
	c.Data = b
	return c
}
