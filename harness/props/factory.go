package props

import (
	"bufio"
	"bytes"
	"context"
	"crypto/tls"
	"errors"
	"fmt"
	"net"
	"net/http"
	"net/http/httptrace"
	"net/url"
	"strings"
	"sync"
	"time"

	"github.com/gorilla/websocket"

	"verifharness/wsref"
	"verifharness/xport"
)

// ConnCfg selects how a connection under test is created (public API only).
type ConnCfg struct {
	Server   bool `json:"server"`
	ReadBuf  int  `json:"rbuf"`
	WriteBuf int  `json:"wbuf"`
	Pool     bool `json:"pool,omitempty"`
	Compress bool `json:"compress,omitempty"` // permessage-deflate negotiated
	// HijackR is the size of the hijacked bufio.Reader handed to Upgrade
	// (server only; 0 = 4096, the net/http size).
	HijackR int `json:"hijack_r,omitempty"`
	// Declined (only without Compress): the client offered permessage-deflate
	// in the handshake and the server declined it (server role: the request
	// carries the offer, the Upgrader has compression off; client role: the
	// Dialer has compression on, the 101 does not announce it).  The
	// connection must behave exactly like one that never mentioned it.
	Declined bool `json:"declined,omitempty"`
	// HSTimeout: the connection was made with a HandshakeTimeout (one hour)
	// configured on the Upgrader / Dialer; nothing of it may outlive the
	// handshake.
	HSTimeout bool `json:"hs_timeout,omitempty"`
}

func (c ConnCfg) Role() string {
	if c.Server {
		return "server"
	}
	return "client"
}

// EffWriteBuf returns the payload capacity of the write buffer the library
// documents for this configuration (used only to bias generators, never by
// oracles).
func (c ConnCfg) EffWriteBuf() int {
	if c.WriteBuf <= 0 {
		return 4096
	}
	return c.WriteBuf
}

const sampleKey = "dGhlIHNhbXBsZSBub25jZQ=="

// fakeRW is an http.ResponseWriter + http.Hijacker over a scripted transport.
type fakeRW struct {
	conn      net.Conn
	brw       *bufio.ReadWriter
	hdr       http.Header
	status    int
	body      bytes.Buffer
	hijacked  int
	hijackErr error
}

func (w *fakeRW) Header() http.Header {
	if w.hdr == nil {
		w.hdr = http.Header{}
	}
	return w.hdr
}
func (w *fakeRW) Write(p []byte) (int, error) {
	if w.status == 0 {
		w.status = 200
	}
	return w.body.Write(p)
}
func (w *fakeRW) WriteHeader(code int) {
	if w.status == 0 {
		w.status = code
	}
}
func (w *fakeRW) Hijack() (net.Conn, *bufio.ReadWriter, error) {
	w.hijacked++
	if w.hijackErr != nil {
		return nil, nil, w.hijackErr
	}
	return w.conn, w.brw, nil
}

// wrappedRW is what logging / metrics middleware hands to a handler: a
// ResponseWriter that does not implement http.Hijacker itself and exposes the
// real writer through Unwrap (the http.ResponseController protocol).
type wrappedRW struct{ inner http.ResponseWriter }

func (w *wrappedRW) Header() http.Header         { return w.inner.Header() }
func (w *wrappedRW) Write(p []byte) (int, error) { return w.inner.Write(p) }
func (w *wrappedRW) WriteHeader(code int)        { w.inner.WriteHeader(code) }
func (w *wrappedRW) Unwrap() http.ResponseWriter { return w.inner }

func allowOrigin(*http.Request) bool { return true }

// upgradeRequest builds a minimal valid upgrade request without going through
// the HTTP parser (header names are in canonical form as net/http would
// produce them).
func upgradeRequest(compress bool) *http.Request {
	h := http.Header{
		"Connection":            {"Upgrade"},
		"Upgrade":               {"websocket"},
		"Sec-Websocket-Version": {"13"},
		"Sec-Websocket-Key":     {sampleKey},
	}
	if compress {
		h["Sec-Websocket-Extensions"] = []string{"permessage-deflate; server_no_context_takeover; client_no_context_takeover"}
	}
	return &http.Request{Method: "GET", URL: &url.URL{Path: "/"}, Proto: "HTTP/1.1", ProtoMajor: 1, ProtoMinor: 1, Header: h, Host: "example.com"}
}

// NewServerConn upgrades a scripted transport through Upgrader.Upgrade.
func NewServerConn(cfg ConnCfg, tr *xport.ScriptConn, pool websocket.BufferPool) (*websocket.Conn, error) {
	hr := cfg.HijackR
	if hr == 0 {
		hr = 4096
	}
	w := &fakeRW{conn: tr, brw: bufio.NewReadWriter(bufio.NewReaderSize(tr, hr), bufio.NewWriterSize(tr, 4096))}
	u := websocket.Upgrader{ReadBufferSize: cfg.ReadBuf, WriteBufferSize: cfg.WriteBuf, EnableCompression: cfg.Compress, CheckOrigin: allowOrigin}
	if cfg.Pool {
		u.WriteBufferPool = pool
	}
	if cfg.HSTimeout {
		u.HandshakeTimeout = time.Hour
		tr.HonourWriteDeadline = true
	}
	c, err := u.Upgrade(w, upgradeRequest(cfg.Compress || cfg.Declined), nil)
	tr.HonourWriteDeadline = false
	if err != nil {
		return nil, fmt.Errorf("harness: Upgrade failed: %w", err)
	}
	tr.ResetLog()
	return c, nil
}

// responder answers the client's opening handshake on a ScriptConn by
// queueing a valid 101 response in front of the transport's input.
type responder struct {
	buf      []byte
	done     bool
	compress bool
	extra    string // extra response header lines
}

func (r *responder) onWrite(c *xport.ScriptConn, p []byte) {
	if r.done {
		return
	}
	r.buf = append(r.buf, p...)
	i := bytes.Index(r.buf, []byte("\r\n\r\n"))
	if i < 0 {
		return
	}
	r.done = true
	key := ""
	for _, line := range strings.Split(string(r.buf[:i]), "\r\n") {
		if k, v, ok := strings.Cut(line, ":"); ok && strings.EqualFold(k, "Sec-WebSocket-Key") {
			key = strings.TrimSpace(v)
		}
	}
	resp := "HTTP/1.1 101 Switching Protocols\r\nUpgrade: websocket\r\nConnection: Upgrade\r\nSec-WebSocket-Accept: " + wsref.AcceptKey(key) + "\r\n"
	if r.compress {
		resp += "Sec-WebSocket-Extensions: permessage-deflate; server_no_context_takeover; client_no_context_takeover\r\n"
	}
	resp += r.extra + "\r\n"
	c.PrependInputLocked([]byte(resp))
}

// NewClientConn dials over a scripted transport through Dialer.DialContext; a
// built-in responder plays the server side of the handshake.
func NewClientConn(cfg ConnCfg, tr *xport.ScriptConn, pool websocket.BufferPool) (*websocket.Conn, error) {
	r := &responder{compress: cfg.Compress}
	tr.OnWrite = r.onWrite
	d := websocket.Dialer{
		NetDialContext:    func(ctx context.Context, network, addr string) (net.Conn, error) { return tr, nil },
		ReadBufferSize:    cfg.ReadBuf,
		WriteBufferSize:   cfg.WriteBuf,
		EnableCompression: cfg.Compress || cfg.Declined,
	}
	if cfg.Pool {
		d.WriteBufferPool = pool
	}
	if cfg.HSTimeout {
		d.HandshakeTimeout = time.Hour
	}
	c, _, err := d.Dial("ws://example.com/", nil)
	tr.OnWrite = nil
	if err != nil {
		return nil, fmt.Errorf("harness: Dial failed: %w", err)
	}
	if !r.done {
		return nil, errors.New("harness: client handshake request never completed")
	}
	tr.ResetLog()
	return c, nil
}

// dialOver dials over tr, whose OnWrite responder the caller has installed
// (the transport may already hold input that follows the 101 response).
func dialOver(cfg ConnCfg, tr *xport.ScriptConn) (*websocket.Conn, error) {
	d := websocket.Dialer{
		NetDialContext:    func(ctx context.Context, network, addr string) (net.Conn, error) { return tr, nil },
		ReadBufferSize:    cfg.ReadBuf,
		WriteBufferSize:   cfg.WriteBuf,
		EnableCompression: cfg.Compress,
	}
	c, _, err := d.Dial("ws://example.com/", nil)
	tr.OnWrite = nil
	return c, err
}

// dialOverTraced is dialOver through DialContext with an httptrace.ClientTrace
// in the context (every hook the library fires is set); it returns the number
// of hook invocations.
func dialOverTraced(cfg ConnCfg, tr *xport.ScriptConn) (*websocket.Conn, int, error) {
	d := websocket.Dialer{
		NetDialContext:    func(ctx context.Context, network, addr string) (net.Conn, error) { return tr, nil },
		ReadBufferSize:    cfg.ReadBuf,
		WriteBufferSize:   cfg.WriteBuf,
		EnableCompression: cfg.Compress,
	}
	fired := 0
	trace := &httptrace.ClientTrace{
		GetConn:              func(string) { fired++ },
		GotConn:              func(httptrace.GotConnInfo) { fired++ },
		GotFirstResponseByte: func() { fired++ },
		WroteRequest:         func(httptrace.WroteRequestInfo) { fired++ },
		WroteHeaders:         func() { fired++ },
		ConnectStart:         func(string, string) { fired++ },
		ConnectDone:          func(string, string, error) { fired++ },
		TLSHandshakeStart:    func() { fired++ },
		TLSHandshakeDone:     func(tls.ConnectionState, error) { fired++ },
	}
	// the context also carries a deadline (and HandshakeTimeout is zero): it
	// bounds the handshake, not the connection that Dial returns
	ctx, cancel := context.WithTimeout(context.Background(), time.Hour)
	defer cancel()
	c, _, err := d.DialContext(httptrace.WithClientTrace(ctx, trace), "ws://example.com/", nil)
	tr.OnWrite = nil
	return c, fired, err
}

// NewConn creates a connection of the configured role over tr.  The
// transport's input must be empty during the handshake; set it afterwards.
func NewConn(cfg ConnCfg, tr *xport.ScriptConn, pool websocket.BufferPool) (*websocket.Conn, error) {
	if cfg.Server {
		return NewServerConn(cfg, tr, pool)
	}
	return NewClientConn(cfg, tr, pool)
}

// simplePool is a LIFO BufferPool without instrumentation.
type simplePool struct{ items []interface{} }

func (p *simplePool) Get() interface{} {
	if n := len(p.items); n > 0 {
		v := p.items[n-1]
		p.items = p.items[:n-1]
		return v
	}
	return nil
}
func (p *simplePool) Put(v interface{}) { p.items = append(p.items, v) }

// SwitchConn is a net.Conn that forwards to an inner connection which can be
// replaced: the handshake runs over a scripted transport, the connection under
// test then continues over another transport (e.g. a GateConn).
type SwitchConn struct {
	mu    sync.Mutex
	inner net.Conn
}

func (s *SwitchConn) get() net.Conn {
	s.mu.Lock()
	defer s.mu.Unlock()
	return s.inner
}

// Switch replaces the inner connection.
func (s *SwitchConn) Switch(c net.Conn) {
	s.mu.Lock()
	s.inner = c
	s.mu.Unlock()
}

func (s *SwitchConn) Read(p []byte) (int, error)         { return s.get().Read(p) }
func (s *SwitchConn) Write(p []byte) (int, error)        { return s.get().Write(p) }
func (s *SwitchConn) Close() error                       { return s.get().Close() }
func (s *SwitchConn) LocalAddr() net.Addr                { return s.get().LocalAddr() }
func (s *SwitchConn) RemoteAddr() net.Addr               { return s.get().RemoteAddr() }
func (s *SwitchConn) SetDeadline(t time.Time) error      { return s.get().SetDeadline(t) }
func (s *SwitchConn) SetReadDeadline(t time.Time) error  { return s.get().SetReadDeadline(t) }
func (s *SwitchConn) SetWriteDeadline(t time.Time) error { return s.get().SetWriteDeadline(t) }

// NewConnOver performs the handshake over a scripted transport and then
// switches the connection to final.
func NewConnOver(cfg ConnCfg, pool websocket.BufferPool, final net.Conn) (*websocket.Conn, error) {
	script := xport.NewScriptConn(nil, nil)
	script.NoLog = true
	sw := &SwitchConn{inner: script}
	var c *websocket.Conn
	var err error
	if cfg.Server {
		hr := cfg.HijackR
		if hr == 0 {
			hr = 4096
		}
		w := &fakeRW{conn: sw, brw: bufio.NewReadWriter(bufio.NewReaderSize(sw, hr), bufio.NewWriterSize(sw, 4096))}
		u := websocket.Upgrader{ReadBufferSize: cfg.ReadBuf, WriteBufferSize: cfg.WriteBuf, EnableCompression: cfg.Compress, CheckOrigin: allowOrigin}
		if cfg.Pool {
			u.WriteBufferPool = pool
		}
		c, err = u.Upgrade(w, upgradeRequest(cfg.Compress), nil)
	} else {
		r := &responder{compress: cfg.Compress}
		script.OnWrite = r.onWrite
		d := websocket.Dialer{
			NetDialContext:    func(ctx context.Context, network, addr string) (net.Conn, error) { return sw, nil },
			ReadBufferSize:    cfg.ReadBuf,
			WriteBufferSize:   cfg.WriteBuf,
			EnableCompression: cfg.Compress,
		}
		if cfg.Pool {
			d.WriteBufferPool = pool
		}
		c, _, err = d.Dial("ws://example.com/", nil)
	}
	if err != nil {
		return nil, fmt.Errorf("harness: handshake failed: %w", err)
	}
	sw.Switch(final)
	return c, nil
}
