package props

import (
	"bufio"
	"context"
	"crypto/tls"
	"errors"
	"fmt"
	"net"
	"net/http"
	"net/url"
	"strconv"
	"strings"

	"github.com/gorilla/websocket"
	"pgregory.net/rapid"

	"verifharness/wsref"
	"verifharness/xport"
)

// OriginCase is one (Host, Origin) pair checked against the default policy.
type OriginCase struct {
	Host      string `json:"host"`
	HasOrigin bool   `json:"has_origin"`
	Origin    string `json:"origin"`
	Kind      string `json:"kind"` // how the origin was derived (for coverage classes)
	// Clean: the origin is a plain scheme://host[:port][/path] construction
	// with the same host (liveness direction applies).
	Clean bool `json:"clean"`
	// Origin2: a second Origin line, sent after the first. A browser never
	// sends two; of such a request the first line is "the Origin" (what
	// Header.Get yields), so a foreign first line must be refused whatever
	// follows it.
	Origin2 string `json:"origin2,omitempty"`
}

// longHost returns a syntactically fine host name of about n bytes.
func longHost(n int) string {
	var sb strings.Builder
	for sb.Len() < n-12 {
		sb.WriteString("label-of-some-length-" + fmt.Sprint(sb.Len()) + ".")
	}
	return sb.String() + "example.org"
}

var originHosts = []string{"a", longHost(253), longHost(300) + ":8443", "example.org", "example.org:8080", "a.b.example.org", "kats.example.org:8080", "sis.example.org", "[::1]:8080", "[2001:db8::1]", "10.0.0.8:8080", "localhost", "localhost:80", "xn--caf-dma.fr", "EXAMPLE.org:443", "i.kiss.example.org"}

func splitHostPort(h string) (host, port string) {
	if i := strings.LastIndex(h, ":"); i > strings.LastIndex(h, "]") {
		return h[:i], h[i+1:]
	}
	return h, ""
}

func genOriginCase(t *rapid.T) OriginCase {
	var c OriginCase
	c.Host = rapid.SampledFrom(originHosts).Draw(t, "host")
	host, port := splitHostPort(c.Host)
	scheme := rapid.SampledFrom([]string{"http", "https", "http", "https", "ws", "chrome-extension", "HTTP"}).Draw(t, "scheme")
	tail := rapid.SampledFrom([]string{"", "", "/", "/a/b?c=d", "?x", "/%2e%2e/"}).Draw(t, "tail")
	withPort := func(h, p string) string {
		if p == "" {
			return h
		}
		return h + ":" + p
	}
	c.HasOrigin = true
	kinds := []string{"absent", "same", "same-case", "edit", "add-label", "remove-label", "prefix-lookalike", "suffix-lookalike", "port-different", "port-missing-or-added", "userinfo-evil", "userinfo-benign", "unicode-fold", "percent", "null", "junk", "fragment-trick", "other-host", "backslash", "ipv6-variant", "scheme-less", "nonascii-tail", "shift32", "two-origins", "pct-delim"}
	c.Kind = rapid.SampledFrom(kinds).Draw(t, "kind")
	switch c.Kind {
	case "absent":
		c.HasOrigin = false
	case "same":
		c.Origin = scheme + "://" + c.Host + tail
		c.Clean = !strings.Contains(tail, "%")
	case "same-case":
		c.Origin = scheme + "://" + caseVariant(t, strings.ToLower(c.Host)) + tail
		c.Clean = !strings.Contains(tail, "%")
	case "edit":
		b := []byte(host)
		pos := rapid.IntRange(0, len(b)-1).Draw(t, "editpos")
		switch rapid.IntRange(0, 2).Draw(t, "editkind") {
		case 0:
			b[pos] = rapid.SampledFrom([]byte("abcxyz019-.")).Draw(t, "editch")
		case 1:
			b = append(b[:pos], b[pos+1:]...)
		default:
			b = append(b[:pos], append([]byte{rapid.SampledFrom([]byte("abcxyz019-.")).Draw(t, "editch")}, b[pos:]...)...)
		}
		c.Origin = scheme + "://" + withPort(string(b), port) + tail
	case "add-label":
		if rapid.Bool().Draw(t, "front") {
			c.Origin = scheme + "://" + withPort("evil."+host, port) + tail
		} else {
			c.Origin = scheme + "://" + withPort(host+".evil.com", port) + tail
		}
	case "remove-label":
		h := host
		if i := strings.Index(h, "."); i >= 0 {
			h = h[i+1:]
		} else {
			h = h[1:]
		}
		c.Origin = scheme + "://" + withPort(h, port) + tail
	case "prefix-lookalike":
		c.Origin = scheme + "://" + withPort("evil"+host, port) + tail
	case "suffix-lookalike":
		c.Origin = scheme + "://" + withPort(host+"evil", port) + tail
		if rapid.Bool().Draw(t, "dotcom") {
			c.Origin = scheme + "://" + host + ".com" + tail
		}
	case "port-different":
		np := rapid.SampledFrom([]string{"8081", "80", "443", "8080", "808", "80800", "08080", "0", "+65536", "+131072", "+4294967296", "-65536"}).Draw(t, "newport")
		if np[0] == '+' || np[0] == '-' {
			// the Host's port plus a multiple of 2^16 or 2^32: equal only to
			// arithmetic that wraps
			base, _ := strconv.Atoi(port)
			if port == "" {
				base = 80
			}
			d, _ := strconv.Atoi(np)
			np = strconv.Itoa(base + d)
		}
		if np == port {
			np = np + "1"
		}
		c.Origin = scheme + "://" + host + ":" + np + tail
	case "port-missing-or-added":
		if port != "" {
			c.Origin = scheme + "://" + host + tail
		} else {
			c.Origin = scheme + "://" + host + ":" + rapid.SampledFrom([]string{"80", "443", ""}).Draw(t, "addport") + tail
		}
	case "userinfo-evil":
		c.Origin = scheme + "://" + rapid.SampledFrom([]string{c.Host + "@evil.com", host + ":80@evil.com", c.Host + "@evil.com:8080", c.Host + "%40evil.com", c.Host + "@" + c.Host + "@evil.com"}).Draw(t, "uinfo") + tail
	case "userinfo-benign":
		c.Origin = scheme + "://" + rapid.SampledFrom([]string{"evil.com@", "user:pw@", "evil.com:80@", "@"}).Draw(t, "uinfo") + c.Host + tail
	case "unicode-fold":
		repl := map[rune]string{'k': "K", 'K': "K", 's': "ſ", 'S': "ſ", 'i': "İ", 'I': "ı", 'e': "ｅ", 'a': "ａ", 'o': "ο", 'l': "ｌ"}
		rs := []rune(host)
		var idx []int
		for i, r := range rs {
			if _, ok := repl[r]; ok {
				idx = append(idx, i)
			}
		}
		if len(idx) == 0 {
			c.Origin = scheme + "://K" + c.Host
			break
		}
		p := rapid.SampledFrom(idx).Draw(t, "foldpos")
		c.Origin = scheme + "://" + withPort(string(rs[:p])+repl[rs[p]]+string(rs[p+1:]), port) + tail
	case "nonascii-tail":
		// the Origin's host:port is the Host with its last bytes replaced by
		// (or followed by) one multi-byte character
		mb := rapid.SampledFrom([]string{"м", "é", "世", "𝄞", "\u212a", "ß"}).Draw(t, "mb")
		cut := rapid.IntRange(0, 2).Draw(t, "mbcut")
		if cut > len(c.Host)-1 {
			cut = len(c.Host) - 1
		}
		c.Origin = scheme + "://" + c.Host[:len(c.Host)-cut] + mb + tail
	case "percent":
		b := []byte(c.Host)
		pos := rapid.IntRange(0, len(b)-1).Draw(t, "pctpos")
		enc := fmt.Sprintf("%%%02x", b[pos])
		if rapid.Bool().Draw(t, "pctupper") {
			enc = strings.ToUpper(enc)
		}
		if rapid.IntRange(0, 3).Draw(t, "pctbad") == 0 {
			enc = rapid.SampledFrom([]string{"%zz", "%", "%4", "%00", "%2f", "%40"}).Draw(t, "pctjunk")
		}
		c.Origin = scheme + "://" + string(b[:pos]) + enc + string(b[pos+1:]) + tail
	case "null":
		c.Origin = "null"
	case "junk":
		c.Origin = rapid.SampledFrom([]string{"", "http//" + c.Host, "://" + c.Host, "http:" + c.Host, "http:/" + c.Host, c.Host, "http://[::1", "%zz", "http://", "javascript:alert(1)", "file:///etc/passwd", "http://" + c.Host + " ", " http://" + c.Host, "http://" + c.Host + "\t", "http://exa mple.org", "http://" + c.Host + ":port", "http://" + c.Host + ":-1", "\x7fhttp://" + c.Host}).Draw(t, "junkorigin")
	case "fragment-trick":
		c.Origin = scheme + "://" + rapid.SampledFrom([]string{"evil.com#@" + c.Host, "evil.com/@" + c.Host, "evil.com?@" + c.Host, "evil.com#" + c.Host, c.Host + "#@evil.com", c.Host + "?@evil.com", c.Host + "/@evil.com"}).Draw(t, "fragtrick")
	case "other-host":
		c.Origin = scheme + "://" + rapid.SampledFrom([]string{"evil.com", "example.com", "example.org.", "[::2]:8080", "10.0.0.80:8080", "127.0.0.1"}).Draw(t, "otherhost") + tail
	case "backslash":
		c.Origin = scheme + "://" + rapid.SampledFrom([]string{"evil.com\\@" + c.Host, c.Host + "\\@evil.com", c.Host + "\\.evil.com", "evil.com\\" + c.Host}).Draw(t, "bslash")
	case "ipv6-variant":
		c.Origin = scheme + "://" + rapid.SampledFrom([]string{"[0:0:0:0:0:0:0:1]:8080", "[::0001]:8080", "[::1%25lo]:8080", "::1:8080", "[::1]", "[2001:DB8::1]", "[2001:db8:0::1]"}).Draw(t, "v6")
	case "scheme-less":
		c.Origin = "//" + c.Host + tail
	case "shift32":
		// one byte of host[:port] moved by 0x20 in either direction: for a letter
		// that is its other case, for everything else another character
		// ('[' <-> ';', ']' <-> '=', '-' <-> 'M', '.' <-> 'N', '1' <-> 'Q', ':' <-> 'Z')
		b := []byte(c.Host)
		pos := rapid.IntRange(0, len(b)-1).Draw(t, "shiftpos")
		var cands []byte
		for _, x := range []int{int(b[pos]) + 0x20, int(b[pos]) - 0x20} {
			if x > 0x20 && x < 0x7f {
				cands = append(cands, byte(x))
			}
		}
		if len(cands) == 0 {
			cands = []byte{'x'}
		}
		b[pos] = rapid.SampledFrom(cands).Draw(t, "shiftto")
		c.Origin = scheme + "://" + string(b) + tail
	case "pct-delim":
		// a percent-encoded URL delimiter next to a copy of the Host: decoded
		// before parsing it would re-split the authority
		c.Origin = scheme + "://" + rapid.SampledFrom([]string{c.Host + "%2F@evil.test", c.Host + "%2f@evil.test", c.Host + "%3F@evil.test", c.Host + "%23@evil.test", "evil.test%40" + c.Host, c.Host + "%2F.evil.test", c.Host + "%40evil.test", "evil.test%2F@" + c.Host + "%40evil.test", c.Host + "%3A80@evil.test", "evil.test%23@" + c.Host + "%2F"}).Draw(t, "pctdelim") + tail
	case "two-origins":
		c.Origin = scheme + "://" + rapid.SampledFrom([]string{"evil.com", "x" + c.Host, "%zz", c.Host + ".evil.com"}).Draw(t, "first_origin") + tail
		c.Origin2 = rapid.SampledFrom([]string{"http://", "https://"}).Draw(t, "scheme2") + c.Host
	}
	return c
}

func checkC13(c OriginCase, o *Obs) error {
	run := func(req *http.Request) (bool, int, error, *fakeRW) {
		tr := xport.NewScriptConn(nil, nil)
		tr.NoLog = true
		w := &fakeRW{conn: tr, brw: bufio.NewReadWriter(bufio.NewReaderSize(tr, 4096), bufio.NewWriterSize(tr, 4096))}
		u := websocket.Upgrader{}
		conn, err := u.Upgrade(w, req, nil)
		return conn != nil, w.status, err, w
	}
	judge := func(via string, req *http.Request) error {
		ok, status, err, w := run(req)
		host := req.Host
		same := false
		refOK := false
		if c.HasOrigin {
			var hp string
			hp, refOK = wsref.OriginHostPort(c.Origin)
			same = refOK && hp != "" && wsref.EqualFoldASCII(hp, host)
		}
		if ok {
			if c.HasOrigin && !same {
				hp, _ := wsref.OriginHostPort(c.Origin)
				return fmt.Errorf("(%s) cross-origin request upgraded: Host %q, Origin %q (origin host[:port] per RFC 3986: %q) [%s]", via, host, c.Origin, hp, c.Kind)
			}
			return nil
		}
		// refused
		if !c.HasOrigin {
			return fmt.Errorf("(%s) request without Origin refused: %v", via, err)
		}
		if c.Clean && same {
			return fmt.Errorf("(%s) same-origin request refused: Host %q, Origin %q: %v", via, host, c.Origin, err)
		}
		var he websocket.HandshakeError
		if !errors.As(err, &he) || status != 403 || w.hijacked != 0 {
			return fmt.Errorf("(%s) origin refused with status %d, error %T %v, hijacked=%d; want 403 + HandshakeError, no hijack", via, status, err, err, w.hijacked)
		}
		return nil
	}
	// direct construction (what a handler sees for these header values)
	h := http.Header{"Connection": {"Upgrade"}, "Upgrade": {"websocket"}, "Sec-Websocket-Version": {"13"}, "Sec-Websocket-Key": {sampleKey}}
	origins := []string{c.Origin}
	if c.Origin2 != "" {
		origins = append(origins, c.Origin2)
		o.Class("two_origin_lines_first_foreign")
	}
	if c.HasOrigin {
		h["Origin"] = append([]string(nil), origins...)
	}
	// headers a client is free to send and that say nothing about the origin:
	// forwarding headers naming the Origin's host (only a trusted reverse proxy
	// may set them; the default policy compares Origin with Host)
	fwd := ""
	if oh, _ := wsref.OriginHostPort(c.Origin); c.HasOrigin && oh != "" && len(c.Origin)%2 == 0 && !strings.ContainsAny(oh, "\r\n\x00 ") {
		h["X-Forwarded-Host"] = []string{oh}
		h["Forwarded"] = []string{"host=" + oh + ";proto=https"}
		h["X-Forwarded-Proto"] = []string{"https"}
		h["X-Original-Host"] = []string{oh}
		fwd = "X-Forwarded-Host: " + oh + "\r\nForwarded: host=" + oh + ";proto=https\r\nX-Forwarded-Proto: https\r\nX-Original-Host: " + oh + "\r\n"
		o.Class("forwarding_headers_name_the_origin_host")
	}
	if c.HasOrigin && len(c.Origin)%3 != 0 {
		// fetch metadata is the client's own account of the request; the default
		// policy is stated in terms of Origin and Host alone
		h["Sec-Fetch-Site"] = []string{"same-origin"}
		h["Sec-Fetch-Mode"] = []string{"websocket"}
		h["Sec-Fetch-Dest"] = []string{"websocket"}
		fwd += "Sec-Fetch-Site: same-origin\r\nSec-Fetch-Mode: websocket\r\nSec-Fetch-Dest: websocket\r\n"
		o.Class("fetch_metadata_claims_same_origin")
	}
	direct := &http.Request{Method: "GET", URL: &url.URL{Path: "/"}, Proto: "HTTP/1.1", ProtoMajor: 1, ProtoMinor: 1, Header: h, Host: c.Host}
	if len(c.Host)%2 == 0 {
		// the request arrived over TLS; the SNI name is the Host's name (what a
		// browser sends) - it says nothing about the Origin
		sni, _ := splitHostPort(c.Host)
		direct.TLS = &tls.ConnectionState{ServerName: strings.Trim(sni, "[]"), HandshakeComplete: true}
		o.Class("request_over_tls_with_sni")
	}
	if err := judge("direct", direct); err != nil {
		return err
	}
	// through net/http's request parser
	raw := "GET / HTTP/1.1\r\nHost: " + c.Host + "\r\nConnection: Upgrade\r\nUpgrade: websocket\r\nSec-WebSocket-Version: 13\r\nSec-WebSocket-Key: " + sampleKey + "\r\n"
	if c.HasOrigin {
		for _, ol := range origins {
			raw += "Origin: " + ol + "\r\n"
		}
	}
	raw += fwd + "\r\n"
	if pr, err := http.ReadRequest(bufio.NewReader(strings.NewReader(raw))); err == nil && pr.Host == c.Host && (!c.HasOrigin || sameStrings(pr.Header["Origin"], origins)) {
		o.Class("via_net_http")
		if err := judge("net/http", pr); err != nil {
			return err
		}
	}
	// absolute-form request target (what a server sees from a client that
	// talks to it as to a proxy, and what httptest.NewRequest builds): the
	// request URL then carries scheme and host of its own
	directAbs := &http.Request{Method: "GET", URL: &url.URL{Scheme: "http", Host: c.Host, Path: "/chat", RawQuery: "room=1"}, Proto: "HTTP/1.1", ProtoMajor: 1, ProtoMinor: 1, Header: h.Clone(), Host: c.Host}
	if err := judge("direct, absolute-form target", directAbs); err != nil {
		return err
	}
	if oh, _ := wsref.OriginHostPort(c.Origin); c.HasOrigin && oh != "" && !strings.ContainsAny(oh, "\r\n\x00 ") {
		// the request URL names the Origin's host (a request rewritten by
		// middleware, or sent in absolute form with another Host header): the
		// policy compares with the request's Host
		foreignURL := &http.Request{Method: "GET", URL: &url.URL{Scheme: "http", Host: oh, Path: "/chat"}, Proto: "HTTP/1.1", ProtoMajor: 1, ProtoMinor: 1, Header: h.Clone(), Host: c.Host}
		if err := judge("direct, request URL names the Origin's host", foreignURL); err != nil {
			return err
		}
		// the listener's own address (what net/http puts into the request context)
		// is the Origin's host: that does not make the Origin the request's Host
		ctxReq := (&http.Request{Method: "GET", URL: &url.URL{Path: "/"}, Proto: "HTTP/1.1", ProtoMajor: 1, ProtoMinor: 1, Header: h.Clone(), Host: c.Host}).WithContext(context.WithValue(context.Background(), http.LocalAddrContextKey, net.Addr(fakeAddr(oh))))
		if err := judge("direct, listener address equals the Origin's host", ctxReq); err != nil {
			return err
		}
		o.Class("request_url_or_listener_names_the_origin_host")
	}
	rawAbs := "GET http://" + c.Host + "/chat?room=1 HTTP/1.1\r\n" + strings.TrimPrefix(raw, "GET / HTTP/1.1\r\n")
	if pr, err := http.ReadRequest(bufio.NewReader(strings.NewReader(rawAbs))); err == nil && pr.Host == c.Host && pr.URL.Host == c.Host && (!c.HasOrigin || sameStrings(pr.Header["Origin"], origins)) {
		o.Class("via_net_http_absolute_form")
		if err := judge("net/http, absolute-form target", pr); err != nil {
			return err
		}
	}
	o.Class("kind_" + c.Kind)
	hp, _ := wsref.OriginHostPort(c.Origin)
	if c.HasOrigin {
		if wsref.EqualFoldASCII(hp, c.Host) && hp != c.Host {
			o.NonTrivial("")
			o.Class("same_origin_differs_in_case")
		} else if !wsref.EqualFoldASCII(hp, c.Host) && editDistanceLE2(strings.ToLower(hp), strings.ToLower(c.Host)) {
			o.NonTrivial("")
			o.Class("near_miss_le2_code_points")
		} else if c.Kind == "unicode-fold" {
			o.NonTrivial("")
		}
	}
	return nil
}

type fakeAddr string

func (a fakeAddr) Network() string { return "tcp" }
func (a fakeAddr) String() string  { return string(a) }

func sameStrings(a, b []string) bool {
	if len(a) != len(b) {
		return false
	}
	for i := range a {
		if a[i] != b[i] {
			return false
		}
	}
	return true
}

// editDistanceLE2 reports whether two strings differ by at most 2 code point edits.
func editDistanceLE2(a, b string) bool {
	ra, rb := []rune(a), []rune(b)
	if len(ra)-len(rb) > 2 || len(rb)-len(ra) > 2 {
		return false
	}
	prev := make([]int, len(rb)+1)
	for j := range prev {
		prev[j] = j
	}
	for i := 1; i <= len(ra); i++ {
		cur := make([]int, len(rb)+1)
		cur[0] = i
		for j := 1; j <= len(rb); j++ {
			cost := 1
			if ra[i-1] == rb[j-1] {
				cost = 0
			}
			cur[j] = min(prev[j]+1, min(cur[j-1]+1, prev[j-1]+cost))
		}
		prev = cur
	}
	return prev[len(rb)] <= 2
}
