package props

import (
	"errors"
	"fmt"
	"reflect"
	"sync"
	"time"
	"unsafe"

	"pgregory.net/rapid"

	"verifharness/wsref"
	"verifharness/xport"
)

// instPool is an instrumented BufferPool: it attributes Get/Put to the
// connection currently scheduled, identifies the pooled []byte by reflection,
// poisons released buffers and verifies the poison when it hands a buffer out
// again.
type instPool struct {
	mu    sync.Mutex
	items []interface{}
	cur   int // connection currently scheduled (sequential legs)

	outstanding map[int]int     // per connection: buffers taken and not returned
	taken       map[int]uintptr // backing array of the buffer last taken from the pool (0 = pool was empty)
	gets, puts  int
	violations  []string
	noBytes     int // values whose []byte could not be located (degraded mode)
}

func newInstPool() *instPool {
	return &instPool{outstanding: map[int]int{}, taken: map[int]uintptr{}}
}

const poisonByte = 0xDB

// pooledBytes locates the []byte inside a pooled value.
func pooledBytes(v interface{}) []byte {
	rv := reflect.ValueOf(v)
	for rv.IsValid() && (rv.Kind() == reflect.Ptr || rv.Kind() == reflect.Interface) {
		if rv.IsNil() {
			return nil
		}
		rv = rv.Elem()
	}
	find := func(f reflect.Value) []byte {
		if f.Kind() == reflect.Slice && f.Type().Elem().Kind() == reflect.Uint8 && f.Len() > 0 {
			return unsafe.Slice((*byte)(unsafe.Pointer(f.Pointer())), f.Cap())[:f.Len()]
		}
		return nil
	}
	if !rv.IsValid() {
		return nil
	}
	if b := find(rv); b != nil {
		return b
	}
	if rv.Kind() == reflect.Struct {
		for i := 0; i < rv.NumField(); i++ {
			f := rv.Field(i)
			for f.Kind() == reflect.Ptr && !f.IsNil() {
				f = f.Elem()
			}
			if b := find(f); b != nil {
				return b
			}
		}
	}
	return nil
}

func (p *instPool) fail(format string, a ...interface{}) {
	if len(p.violations) < 5 {
		p.violations = append(p.violations, fmt.Sprintf(format, a...))
	}
}

func checkPoison(b []byte) int {
	for i, x := range b {
		if x != poisonByte {
			return i
		}
	}
	return -1
}

// poolView is the BufferPool handed to one connection: it forwards to the
// shared instrumented pool under that connection's identity, so Get/Put are
// attributed exactly even when connections run concurrently.
type poolView struct {
	p  *instPool
	id int
}

func (v poolView) Get() interface{}  { return v.p.getFor(v.id) }
func (v poolView) Put(x interface{}) { v.p.putFor(v.id, x) }

func (p *instPool) view(id int) poolView { return poolView{p, id} }

func (p *instPool) Get() interface{}  { return p.getFor(p.cur) }
func (p *instPool) Put(v interface{}) { p.putFor(p.cur, v) }

func (p *instPool) getFor(id int) interface{} {
	p.mu.Lock()
	defer p.mu.Unlock()
	p.gets++
	p.outstanding[id]++
	if p.outstanding[id] > 1 {
		p.fail("connection %d took a second buffer while still holding one", id)
	}
	n := len(p.items)
	if n == 0 {
		p.taken[id] = 0
		return nil
	}
	v := p.items[n-1]
	p.items = p.items[:n-1]
	if b := pooledBytes(v); b != nil {
		if i := checkPoison(b); i >= 0 {
			p.fail("a released buffer was written at offset %d (value %#x) while it sat in the pool — use after release", i, b[i])
		}
		p.taken[id] = uintptr(unsafe.Pointer(&b[0]))
	} else {
		p.noBytes++
		p.taken[id] = 0
	}
	return v
}

func (p *instPool) putFor(id int, v interface{}) {
	p.mu.Lock()
	defer p.mu.Unlock()
	p.puts++
	p.outstanding[id]--
	if p.outstanding[id] < 0 {
		p.fail("connection %d returned a buffer it did not hold (double Put)", id)
		p.outstanding[id] = 0
	}
	if b := pooledBytes(v); b != nil {
		ptr := uintptr(unsafe.Pointer(&b[0]))
		if t := p.taken[id]; t != 0 && t != ptr {
			p.fail("connection %d returned a different buffer than the one it took", id)
		}
		for _, it := range p.items {
			if ib := pooledBytes(it); ib != nil && uintptr(unsafe.Pointer(&ib[0])) == ptr {
				p.fail("connection %d returned a buffer that is already in the pool", id)
			}
		}
		for i := range b {
			b[i] = poisonByte
		}
	} else {
		p.noBytes++
	}
	p.items = append(p.items, v)
}

// finalCheck verifies the poison of everything left in the pool.
func (p *instPool) finalCheck() {
	p.mu.Lock()
	defer p.mu.Unlock()
	for _, it := range p.items {
		if b := pooledBytes(it); b != nil {
			if i := checkPoison(b); i >= 0 {
				p.fail("a released buffer was written at offset %d after it was returned to the pool", i)
			}
		}
	}
}

// PoolConn is one connection of a pool-sharing population.
type PoolConn struct {
	W     ConnCfg           `json:"cfg"`
	Steps []WStep           `json:"steps"`
	Fault *xport.WriteFault `json:"fault,omitempty"`
	// CloseAt > 0: Conn.Close() is called right after the CloseAt-th API call
	// of the program (legal at any moment, also while a message is open); the
	// transport then refuses every further operation.
	CloseAt int `json:"close_at,omitempty"`
}

// PoolCase is 1-4 connections sharing one pool, interleaved call by call.
type PoolCase struct {
	Conns []PoolConn `json:"conns"`
	// Order picks which connection makes its next API call (cycled; finished
	// connections are skipped).
	Order []int `json:"order"`
	// Conc: the connections run in parallel goroutines instead (race leg).
	Conc bool `json:"conc,omitempty"`
}

func genPoolCase(t *rapid.T) PoolCase {
	var c PoolCase
	n := rapid.IntRange(1, 4).Draw(t, "nconns")
	wbuf := genBuf(t, "wbuf") // "a single pool for each unique value of WriteBufferSize" is advice: mixing sizes happens
	wbuf2 := wbuf
	if rapid.IntRange(0, 3).Draw(t, "mixed_sizes") == 0 {
		wbuf2 = genBuf(t, "wbuf2")
	}
	for i := 0; i < n; i++ {
		var pc PoolConn
		pc.W.Server = rapid.Bool().Draw(t, "server")
		pc.W.WriteBuf = wbuf
		if i%2 == 1 {
			pc.W.WriteBuf = wbuf2
		}
		pc.W.Pool = true
		pc.W.Compress = rapid.Bool().Draw(t, "compress")
		pc.Steps = genWriteProgram(t, pc.W.EffWriteBuf(), WGenOpts{MaxSteps: 5, AllowHuge: false, AllowBad: true, AllowClose: true, AllowCtl: true})
		if rapid.IntRange(0, 2).Draw(t, "hasfault") == 0 {
			pc.Fault = &xport.WriteFault{K: rapid.IntRange(0, 12).Draw(t, "fault_k"), Kind: rapid.SampledFrom(wfaultKinds).Draw(t, "fault_kind")}
		}
		if rapid.IntRange(0, 3).Draw(t, "connclose") == 0 {
			pc.CloseAt = rapid.IntRange(1, 9).Draw(t, "close_at")
		}
		c.Conns = append(c.Conns, pc)
	}
	c.Order = rapid.SliceOfN(rapid.IntRange(0, n-1), 1, 40).Draw(t, "order")
	return c
}

func checkC20(c PoolCase, o *Obs) error {
	pool := newInstPool()
	type cstate struct {
		turn     chan struct{}
		done     chan struct{}
		fin      bool
		finished bool // set under pool.mu when the program has ended (concurrent leg)
		tw       *WTrace
		tr       *xport.ScriptConn
		err      error
	}
	n := len(c.Conns)
	states := make([]*cstate, n)
	var firstErr error
	for i := range c.Conns {
		pc := c.Conns[i]
		pc.W.Pool = true
		st := &cstate{turn: make(chan struct{}), done: make(chan struct{})}
		states[i] = st
		st.tr = xport.NewScriptConn(nil, nil)
		conn, err := NewConn(pc.W, st.tr, pool.view(i))
		if err != nil {
			return err
		}
		if pool.outstanding[i] != 0 {
			return fmt.Errorf("connection %d holds a pooled buffer right after the handshake, before any message", i)
		}
		if pc.Fault != nil {
			st.tr.SetWriteFault(pc.Fault)
		}
		steps, nEx := steerWriteProgram("C20", poolSteerCfg(c, i), pc.Steps)
		o.Excluded(nEx)
		id := i
		go func() {
			<-st.turn // first grant starts the program
			granted := true
			gate := func() {
				if !granted {
					st.done <- struct{}{}
					<-st.turn
				}
				granted = false
			}
			ncalls := 0
			after := func(cl *Call, holding bool) {
				if ncalls++; pc.CloseAt > 0 && ncalls == pc.CloseAt {
					pool.mu.Lock()
					before := pool.outstanding[id]
					pool.mu.Unlock()
					conn.Close()
					if !st.tr.WriteFaultFired() {
						st.tr.SetWriteFault(&xport.WriteFault{K: 0, Kind: xport.FaultError})
					}
					pool.mu.Lock()
					if now := pool.outstanding[id]; now != before && st.err == nil {
						st.err = fmt.Errorf("connection %d: Conn.Close() after step %d %s changed the number of pooled buffers it holds from %d to %d (message writer open: %v): a buffer is returned when its message ends, and Close ends no message - the writer still uses the buffer", id, cl.Step, cl.API, before, now, holding)
					}
					pool.mu.Unlock()
				}
				pool.mu.Lock()
				defer pool.mu.Unlock()
				want := 0
				if holding {
					want = 1
				}
				// A buffer may be held only while a message writer is open (taking it
				// later than NextWriter would be harmless, keeping it longer is not).
				if got := pool.outstanding[id]; got > want && st.err == nil {
					st.err = fmt.Errorf("connection %d after step %d %s (err=%v): holds %d pooled buffers although no message writer is open (a buffer may be held only while a message is being written)", id, cl.Step, cl.API, cl.Err, got)
				}
			}
			func() {
				defer func() {
					if r := recover(); r != nil {
						pool.mu.Lock()
						if st.err == nil {
							st.err = fmt.Errorf("PANIC in a write call of connection %d: %v", id, r)
						}
						pool.mu.Unlock()
						st.tw = &WTrace{}
					}
				}()
				st.tw = RunWriteHooked(conn, st.tr, steps, pc.W.Compress, pc.W.Server, gate, after)
			}()
			st.fin = true
			pool.mu.Lock()
			st.finished = true
			pool.mu.Unlock()
			st.done <- struct{}{}
		}()
	}
	if c.Conc {
		// free-running: every program in its own goroutine, no hand-over
		for i := range states {
			st := states[i]
			go func() {
				for !st.fin {
					st.turn <- struct{}{}
					<-st.done
				}
			}()
		}
		deadline := time.After(60 * time.Second)
		for _, st := range states {
			for {
				pool.mu.Lock()
				fin := st.finished
				pool.mu.Unlock()
				if fin {
					break
				}
				select {
				case <-deadline:
					failHard(errors.New("C20: concurrent programs did not finish within 60 s"))
				case <-time.After(time.Millisecond):
				}
			}
			if st.err != nil && firstErr == nil {
				firstErr = st.err
			}
		}
	}
	// interleave call by call
	alive := n
	if c.Conc {
		alive = 0
	}
	grant := func(i int) {
		st := states[i]
		if st.fin {
			return
		}
		pool.cur = i
		st.turn <- struct{}{}
		<-st.done
		if st.fin {
			alive--
		}
		if st.err != nil && firstErr == nil {
			firstErr = st.err
		}
	}
	for k := 0; alive > 0 && k < len(c.Order)*20; k++ {
		grant(c.Order[k%len(c.Order)] % n)
	}
	for round := 0; alive > 0 && round < 100000; round++ {
		for i := 0; i < n; i++ {
			grant(i)
		}
	}
	if alive > 0 {
		return fmt.Errorf("harness: %d programs did not finish", alive)
	}
	if firstErr != nil {
		return firstErr
	}
	if c.Conc {
		if rep, grew := raceLogGrew(); grew {
			return fmt.Errorf("DATA RACE reported while %d connections shared one write buffer pool:\n%s", n, rep)
		}
	}
	pool.finalCheck()
	if len(pool.violations) > 0 {
		return fmt.Errorf("pool discipline violated: %s", pool.violations[0])
	}
	for i := 0; i < n; i++ {
		if pool.outstanding[i] != 0 {
			return fmt.Errorf("connection %d still holds %d pooled buffers after its last message ended", i, pool.outstanding[i])
		}
	}
	if pool.gets != pool.puts {
		return fmt.Errorf("pool saw %d Get and %d Put", pool.gets, pool.puts)
	}
	// every connection's wire carries its own messages only
	shared, endedByErr := false, false
	for i, st := range states {
		pc := c.Conns[i]
		if (pc.Fault != nil || pc.CloseAt > 0) && st.tr.WriteFaultFired() {
			endedByErr = true
			if _, _, derr := wsref.DecodeFrames(st.tr.Wrote, !pc.W.Server); derr != nil {
				return fmt.Errorf("connection %d: bytes accepted before its transport fault are not well-formed: %v", i, derr)
			}
			continue
		}
		_, msgs, err := decodeWire(st.tr.Wrote, pc.W, false)
		if err != nil {
			return fmt.Errorf("connection %d: %v", i, err)
		}
		if err := checkCalls(st.tw, stepsOf(c, i)); err != nil {
			return fmt.Errorf("connection %d: %v", i, err)
		}
		if err := matchWire(msgs, st.tw.Sent); err != nil {
			return fmt.Errorf("connection %d (sharing a pool with %d others): %v", i, n-1, err)
		}
	}
	if n >= 2 && pool.gets >= 2 {
		shared = true
	}
	for _, pc := range c.Conns {
		if pc.CloseAt > 0 {
			o.Class("conn_Close_called_mid_program")
		}
		for _, s := range pc.Steps {
			if s.Op == "writer" && s.Implicit || s.Op == "bad" {
				endedByErr = true
			}
		}
	}
	o.ClassIf(shared, "pool_shared_by_2plus")
	o.ClassIf(endedByErr, "message_ended_by_error_or_implicit_close")
	o.ClassIf(pool.noBytes > 0, "DEGRADED_no_bytes_located")
	o.Class(fmt.Sprintf("conns_%d", n))
	if shared || endedByErr {
		o.NonTrivial("")
	}
	return nil
}

func stepsOf(c PoolCase, i int) []WStep {
	s, _ := steerWriteProgram("C20", poolSteerCfg(c, i), c.Conns[i].Steps)
	return s
}

// poolSteerCfg is connection i's configuration as far as the listed known
// finding (SigCtlReadFromFull) goes: on a pool shared by connections of
// different sizes, any of them may be handed the 125-payload-byte buffer that a
// connection with WriteBufferSize in 1..125 returned, and then meets the same
// refusal at the same call site.
func poolSteerCfg(c PoolCase, i int) ConnCfg {
	cfg := c.Conns[i].W
	for _, o := range c.Conns {
		if o.W.WriteBuf >= 1 && o.W.WriteBuf <= 125 {
			cfg.WriteBuf = o.W.WriteBuf
		}
	}
	return cfg
}
