package props

import (
	"bytes"
	"encoding/binary"
	"errors"
	"fmt"
	"strings"

	"github.com/gorilla/websocket"
	"pgregory.net/rapid"

	"verifharness/wsref"
	"verifharness/xport"
)

// CloseCase is a write program into which one close action is inserted at a
// generated position (possibly inside an open message), followed by further
// steps of every kind.
type CloseCase struct {
	W     ConnCfg `json:"writer"`
	Steps []WStep `json:"steps"`
	// At: the close action is inserted before step At (as a step), or, when
	// InPart >= 0, before part InPart of writer step At.
	At     int `json:"at"`
	InPart int `json:"in_part"`
	// Via: control | msg | writer | prepared | peerclose | peerviolation | peerbig
	Via  string `json:"via"`
	Code int    `json:"code"`
	// ReasonLen: length of the close reason the application sends (0..123).
	ReasonLen int `json:"reason_len,omitempty"`
}

func genCloseCase(t *rapid.T) CloseCase {
	var c CloseCase
	c.W.Server = rapid.Bool().Draw(t, "writer_is_server")
	c.W.WriteBuf = genBuf(t, "wbuf")
	c.W.Pool = rapid.Bool().Draw(t, "pool")
	c.W.Compress = rapid.Bool().Draw(t, "compress")
	c.W.HSTimeout = rapid.IntRange(0, 2).Draw(t, "hs_timeout") == 0
	c.Steps = genWriteProgram(t, c.W.EffWriteBuf(), WGenOpts{MaxSteps: 8, AllowHuge: false, AllowBad: true, AllowClose: false, AllowCtl: true})
	c.At = rapid.IntRange(0, len(c.Steps)).Draw(t, "at")
	c.InPart = -1
	c.Via = rapid.SampledFrom([]string{"control", "control", "msg", "writer", "prepared", "peerclose", "peerclose_custom", "peerviolation", "peerbig"}).Draw(t, "via")
	c.Code = rapid.SampledFrom([]int{1000, 1001, 1008, 3000, 4999, 0}).Draw(t, "code")
	c.ReasonLen = rapid.SampledFrom([]int{0, 0, 1, 61, 62, 63, 64, 100, 122, 123}).Draw(t, "reason_len")
	// prefer positions inside an open message when there is one
	var writers []int
	for i, s := range c.Steps {
		if s.Op == "writer" && s.MT < 8 {
			writers = append(writers, i)
		}
	}
	if len(writers) > 0 && rapid.IntRange(0, 2).Draw(t, "inside") > 0 {
		c.At = rapid.SampledFrom(writers).Draw(t, "at_writer")
		c.InPart = rapid.IntRange(0, len(c.Steps[c.At].Parts)).Draw(t, "in_part")
		if c.Via == "msg" || c.Via == "writer" || c.Via == "prepared" {
			// these would open a second writer or write a data-path frame
			// inside the open message (application misuse); use WriteControl
			c.Via = "control"
		}
	}
	return c
}

func closeBodyFor(code int) []byte { return closeBodyOf(code, 4) }

func (c CloseCase) reasonLen() int {
	if c.ReasonLen <= 0 || c.ReasonLen > 123 {
		return 4
	}
	return c.ReasonLen
}

func closeBodyOf(code, reasonLen int) []byte {
	if code == 0 {
		return []byte{}
	}
	return websocket.FormatCloseMessage(code, strings.Repeat("done", 31)[:reasonLen])
}

// withClose returns the program with the close action inserted.
func (c CloseCase) withClose() []WStep {
	body := closeBodyOf(c.Code, c.reasonLen())
	d := Payload{Len: len(body), Kind: "raw", Raw: body}
	var out []WStep
	for i, s := range c.Steps {
		if i == c.At {
			if c.InPart >= 0 && s.Op == "writer" {
				ns := s
				ns.Parts = nil
				for pi, p := range s.Parts {
					if pi == c.InPart {
						ns.Parts = append(ns.Parts, c.closePart(d))
					}
					ns.Parts = append(ns.Parts, p)
				}
				if c.InPart >= len(s.Parts) {
					ns.Parts = append(ns.Parts, c.closePart(d))
				}
				out = append(out, ns)
				continue
			}
			out = append(out, c.closeStep(d))
		}
		out = append(out, s)
	}
	if c.At >= len(c.Steps) {
		out = append(out, c.closeStep(d))
	}
	// a writer left open must still be followed by an opener (see genWriteProgram)
	for i := range out {
		if out[i].Op == "writer" && out[i].Implicit {
			if i == len(out)-1 || !(out[i+1].Op == "json" || out[i+1].Op == "writer" || (out[i+1].Op == "msg")) {
				out[i].Implicit = false
			}
		}
	}
	return out
}

func (c CloseCase) closePart(d Payload) WPart {
	switch c.Via {
	case "peerclose", "peerclose_custom", "peerviolation", "peerbig":
		return WPart{API: c.Via, MT: c.Code}
	}
	return WPart{API: "control", MT: websocket.CloseMessage, Data: d}
}

func (c CloseCase) closeStep(d Payload) WStep {
	switch c.Via {
	case "msg":
		return WStep{Op: "msg", MT: websocket.CloseMessage, Data: d}
	case "writer":
		return WStep{Op: "writer", MT: websocket.CloseMessage, Data: d, Parts: []WPart{{API: "write", Len: d.Len / 2}}}
	case "prepared":
		return WStep{Op: "prepared", MT: websocket.CloseMessage, Data: d}
	case "peerclose", "peerclose_custom", "peerviolation", "peerbig":
		return WStep{Op: c.Via, Level: c.Code}
	}
	return WStep{Op: "control", MT: websocket.CloseMessage, Data: d, Deadline: 1}
}

func checkC09(c CloseCase, o *Obs) error {
	steps := c.withClose()
	var nEx int
	steps, nEx = steerWriteProgram("C09", c.W, steps)
	o.Excluded(nEx)
	pool := &simplePool{}
	tr := xport.NewScriptConn(nil, nil)
	conn, err := NewConn(c.W, tr, pool)
	if err != nil {
		return err
	}
	tw := RunWriteRole(conn, tr, steps, c.W.Compress, c.W.Server)
	return judgeAfterClose(c, tw, tr.Wrote, o)
}

// judgeAfterClose applies the C09 oracle to a finished run.
func judgeAfterClose(c CloseCase, tw *WTrace, wrote []byte, o *Obs) error {
	frames, consumed, derr := wsref.DecodeFrames(wrote, !c.W.Server)
	if derr != nil {
		return fmt.Errorf("wire is not well-formed: %v", derr)
	}
	ci := -1
	for i, f := range frames {
		if f.Opcode == wsref.OpClose {
			ci = i
			break
		}
	}
	if ci < 0 {
		return fmt.Errorf("no close frame reached the wire although one was sent via %s (wire: %d frames, %d bytes)", c.Via, len(frames), len(wrote))
	}
	closeEnd := frames[ci].End
	if len(wrote) != closeEnd || consumed != closeEnd || ci != len(frames)-1 {
		return fmt.Errorf("%d bytes were written after the close frame (close frame ends at offset %d, wire has %d bytes; next bytes %s)", len(wrote)-closeEnd, closeEnd, len(wrote), abbrev(wrote[closeEnd:]))
	}
	if _, aerr := wsref.Assemble(frames, wsref.AssembleOpts{Compression: c.W.Compress}); aerr != nil {
		return fmt.Errorf("wire violates message framing: %v", aerr)
	}
	// close frame content
	p := frames[ci].Payload
	wantCode := -1
	switch c.Via {
	case "peerviolation":
		wantCode = 1002
	case "peerbig":
		wantCode = 1009
	case "peerclose", "peerclose_custom":
		wantCode = c.Code
	default:
		if !bytes.Equal(p, closeBodyOf(c.Code, c.reasonLen())) {
			return fmt.Errorf("close frame payload %s differs from what the application sent %s", abbrev(p), abbrev(closeBodyOf(c.Code, c.reasonLen())))
		}
	}
	if wantCode > 0 {
		if len(p) < 2 || int(binary.BigEndian.Uint16(p)) != wantCode {
			return fmt.Errorf("automatic close frame carries %s, want status %d", abbrev(p), wantCode)
		}
	} else if wantCode == 0 && len(p) != 0 {
		return fmt.Errorf("echo of an empty close frame carries %s", abbrev(p))
	}

	// the call during which the close frame hit the wire
	cc := -1
	for i, cl := range tw.Calls {
		if cl.WroteBefore < closeEnd && closeEnd <= cl.WroteAfter {
			cc = i
			break
		}
	}
	if cc < 0 {
		return errors.New("harness: cannot attribute the close frame to a call")
	}
	// writers opened before the close: their Close (if it happens after) must fail
	inside := false
	for i, cl := range tw.Calls {
		if i <= cc {
			continue
		}
		switch cl.API {
		case "WriteMessage", "NextWriter", "WriteControl", "WriteJSON", "WritePreparedMessage":
			if cl.Err == nil {
				return fmt.Errorf("step %d %s succeeded after a close frame had been written (close sent via %s during step %d %s)", cl.Step, cl.API, c.Via, tw.Calls[cc].Step, tw.Calls[cc].API)
			}
			if !cl.Bad && !errors.Is(cl.Err, websocket.ErrCloseSent) {
				return fmt.Errorf("step %d %s (a valid request) failed with %q after the close frame, want ErrCloseSent", cl.Step, cl.API, cl.Err)
			}
		case "Close":
			if cl.Msg >= 0 && tw.Sent[cl.Msg].StartEv <= cc {
				inside = true
			}
			if cl.Err == nil {
				return fmt.Errorf("step %d: Close of a message writer returned nil after a close frame had been written — the message is reported sent but its final frame is not on the wire", cl.Step)
			}
		}
	}
	// every message reported as sent is completely on the wire before the close
	wms, _ := wsref.Assemble(frames, wsref.AssembleOpts{Compression: c.W.Compress})
	var wd []wsref.WireMsg
	for _, m := range wms {
		if !wsref.IsControl(m.Opcode) && m.Complete {
			wd = append(wd, m)
		}
	}
	wi := 0
	for _, s := range tw.Sent {
		if s.Bad || s.Control || !s.Reported || s.EndEv < 0 {
			continue
		}
		// explicit completion only: the call at EndEv belongs to this message and returned nil
		if s.EndEv >= len(tw.Calls) || tw.Calls[s.EndEv].Msg < 0 || tw.Calls[s.EndEv].Err != nil {
			continue
		}
		if tw.Calls[s.EndEv].Step != s.Step {
			continue // implicitly closed by a later step: no call reported it sent
		}
		found := false
		for wi < len(wd) {
			m := wd[wi]
			wi++
			payload := m.Payload
			if m.Compressed {
				inf, err := wsref.Inflate(m.Payload, len(s.Payload)+1024)
				if err != nil {
					continue
				}
				payload = inf
			}
			if int(m.Opcode) == s.MT && bytes.Equal(payload, s.Payload) {
				found = true
				break
			}
		}
		if !found {
			return fmt.Errorf("message of step %d (type %d, %d bytes) was reported as sent but is not completely on the wire before the close frame", s.Step, s.MT, len(s.Payload))
		}
	}
	o.Class("via_" + c.Via)
	o.ClassIf(c.InPart >= 0, "close_inside_open_message")
	o.ClassIf(inside, "open_writer_closed_after_close_frame")
	o.ClassIf(cc < len(tw.Calls)-1, "calls_after_close")
	if c.InPart >= 0 || cc < len(tw.Calls)-1 {
		o.NonTrivial("")
	}
	return nil
}
