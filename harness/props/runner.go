package props

import (
	"encoding/binary"
	"encoding/json"
	"errors"
	"fmt"
	"hash/fnv"
	"os"
	"path/filepath"
	"runtime/debug"
	"sort"
	"strconv"
	"sync"
	"testing"
	"time"

	"pgregory.net/rapid"
)

// Obs collects what one executed case covered.
type Obs struct {
	fp      uint64
	classes map[string]int
	nontriv map[uint64]struct{}
	evals   int
	excl    int
}

// Excluded records that n sub-cases were steered away from a listed known finding.
func (o *Obs) Excluded(n int) { o.excl += n }

// Class counts the case (or sub-case) under a named class.
func (o *Obs) Class(name string) {
	if o.classes == nil {
		o.classes = map[string]int{}
	}
	o.classes[name]++
}

// ClassIf counts under name when cond holds.
func (o *Obs) ClassIf(cond bool, name string) {
	if cond {
		o.Class(name)
	}
}

// NonTrivial marks the case (refined by subkey, "" for the case itself) as
// non-trivial by the property's stated rule.
func (o *Obs) NonTrivial(subkey string) {
	if o.nontriv == nil {
		o.nontriv = map[uint64]struct{}{}
	}
	h := fnv.New64a()
	var b [8]byte
	binary.LittleEndian.PutUint64(b[:], o.fp)
	h.Write(b[:])
	h.Write([]byte(subkey))
	o.nontriv[h.Sum64()] = struct{}{}
}

// Evals records n additional executions performed inside the case (the case
// itself counts as one).
func (o *Obs) Evals(n int) { o.evals += n }

// Stats accumulates coverage over a test function.
type Stats struct {
	mu       sync.Mutex
	ID, Part string
	Evals    int64
	Cases    int64
	Classes  map[string]int64
	fps      map[uint64]struct{}
	Samples  []json.RawMessage
	Excluded int64
	Notes    []string
}

func newStats(id, part string) *Stats {
	return &Stats{ID: id, Part: part, Classes: map[string]int64{}, fps: map[uint64]struct{}{}}
}

const maxSamples = 4

func (s *Stats) commit(o *Obs, caseJSON []byte) {
	s.mu.Lock()
	defer s.mu.Unlock()
	s.Cases++
	s.Evals += int64(1 + o.evals)
	s.Excluded += int64(o.excl)
	for k, v := range o.classes {
		s.Classes[k] += int64(v)
	}
	if len(o.nontriv) > 0 {
		before := len(s.fps)
		for k := range o.nontriv {
			s.fps[k] = struct{}{}
		}
		if len(s.fps) > before && len(s.Samples) < maxSamples && caseJSON != nil {
			js := caseJSON
			if len(js) > 6000 {
				js, _ = json.Marshal(map[string]any{"truncated_case_json_prefix": string(js[:6000])})
			}
			s.Samples = append(s.Samples, json.RawMessage(js))
		}
	}
}

func outDir() string {
	d := os.Getenv("VERIF_OUT")
	if d == "" {
		d = "verif-out"
	}
	os.MkdirAll(d, 0o755)
	return d
}

func shardLabel() string {
	s := os.Getenv("VERIF_SHARD")
	if s == "" {
		s = "0"
	}
	return s
}

func (s *Stats) flush() {
	s.mu.Lock()
	defer s.mu.Unlock()
	base := filepath.Join(outDir(), fmt.Sprintf("%s.%s.%s", s.ID, s.Part, shardLabel()))
	fps := make([]uint64, 0, len(s.fps))
	for k := range s.fps {
		fps = append(fps, k)
	}
	sort.Slice(fps, func(i, j int) bool { return fps[i] < fps[j] })
	buf := make([]byte, 8*len(fps))
	for i, v := range fps {
		binary.LittleEndian.PutUint64(buf[8*i:], v)
	}
	os.WriteFile(base+".fps", buf, 0o644)
	js, _ := json.Marshal(map[string]any{
		"id": s.ID, "part": s.Part, "shard": shardLabel(),
		"cases": s.Cases, "evaluations": s.Evals, "classes": s.Classes,
		"distinct_nontrivial": len(fps), "samples": s.Samples, "excluded_known": s.Excluded, "notes": s.Notes,
	})
	os.WriteFile(base+".stats.json", js, 0o644)
}

func fingerprint(js []byte) uint64 {
	h := fnv.New64a()
	h.Write(js)
	return h.Sum64()
}

// failRecord is what is written when a case fails.
type failRecord struct {
	Property string          `json:"property"`
	Part     string          `json:"part"`
	Test     string          `json:"test"`
	Error    string          `json:"error"`
	Case     json.RawMessage `json:"case"`
}

func writeFail(id, part, test string, caseJSON []byte, err error) string {
	p := filepath.Join(outDir(), fmt.Sprintf("%s.%s.%s.fail.json", id, part, shardLabel()))
	js, _ := json.MarshalIndent(failRecord{Property: id, Part: part, Test: test, Error: err.Error(), Case: caseJSON}, "", " ")
	os.WriteFile(p, js, 0o644)
	return p
}

// caseTimeout is the wall-clock watchdog for a single case: a case that does
// not return is reported as a hang (cases normally take well under 10 ms).
func caseTimeout() time.Duration {
	if v, err := strconv.Atoi(os.Getenv("VERIF_CASE_TIMEOUT")); err == nil && v > 0 {
		return time.Duration(v) * time.Second
	}
	return 120 * time.Second
}

var watchdogCtx struct {
	id, part, test string
	caseJSON       []byte
}

// noteCurrentCase keeps the case being evaluated in a file, so that the driver
// can attribute a crash of the whole process (a panic in a goroutine of the
// case, a runtime fatal error such as "concurrent map writes") to its input.
var currentCase struct {
	f    *os.File
	path string
}

func noteCurrentCase(js []byte) {
	if os.Getenv("VERIF_OUT") == "" {
		return
	}
	if currentCase.f == nil {
		currentCase.path = filepath.Join(outDir(), fmt.Sprintf("%s.%s.%s.current.json", watchdogCtx.id, watchdogCtx.part, shardLabel()))
		f, err := os.Create(currentCase.path)
		if err != nil {
			return
		}
		currentCase.f = f
	}
	rec, _ := json.Marshal(failRecord{Property: watchdogCtx.id, Part: watchdogCtx.part, Test: watchdogCtx.test, Error: "CRASH: the test process died while evaluating this case", Case: js})
	currentCase.f.Truncate(0)
	currentCase.f.WriteAt(rec, 0)
}

// clearCurrentCase removes the file when a part ends normally.
func clearCurrentCase() {
	if currentCase.f != nil {
		currentCase.f.Close()
		os.Remove(currentCase.path)
		currentCase.f = nil
	}
}

// failHard records the current case as failing and ends the process.  It is
// used when a check cannot return normally (e.g. goroutines of the case are
// deadlocked inside the library).
func failHard(err error) {
	writeFail(watchdogCtx.id, watchdogCtx.part, watchdogCtx.test, watchdogCtx.caseJSON, err)
	fmt.Fprintln(os.Stderr, "FATAL case failure:", err)
	os.Exit(1)
}

// Observations are violations noticed by harness code that has no error path
// of its own to the check (for example inside a read program, where errors are
// ordinary data): safeCheck fails the case if any was recorded.
var (
	obsMu        sync.Mutex
	observations []string
)

func observe(format string, a ...interface{}) {
	obsMu.Lock()
	observations = append(observations, fmt.Sprintf(format, a...))
	obsMu.Unlock()
}

func takeObservations() []string {
	obsMu.Lock()
	defer obsMu.Unlock()
	out := observations
	observations = nil
	return out
}

// safeCheck runs check and converts a panic into an error.  A watchdog turns a
// case that never returns into a recorded failure and ends the process.
func safeCheck[C any](check func(C, *Obs) error, c C, o *Obs) (err error) {
	wd := time.AfterFunc(caseTimeout(), func() {
		js, _ := json.Marshal(c)
		writeFail(watchdogCtx.id, watchdogCtx.part, watchdogCtx.test, js, fmt.Errorf("HANG: the case did not finish within %v (a call into the library never returned)", caseTimeout()))
		fmt.Fprintln(os.Stderr, "HANG: case did not finish; see fail file")
		os.Exit(1)
	})
	defer wd.Stop()
	takeObservations()
	defer func() {
		if r := recover(); r != nil {
			err = fmt.Errorf("PANIC: %v\n%s", r, debug.Stack())
		}
		if obs := takeObservations(); err == nil && len(obs) > 0 {
			err = errors.New(obs[0])
		}
	}()
	return check(c, o)
}

// stallThreshold: the library's default handlers arm a hard-coded one-second
// wall-clock deadline (writeWait) for every automatic reply, so a process
// that is descheduled for that long in the middle of a case (loaded machine,
// paused VM) legitimately loses a reply.  An evaluation that failed AND took
// this long is therefore inconclusive and is evaluated again; the verdict of
// the first evaluation that is not stalled (or of the third re-evaluation)
// counts.  Failures of evaluations that were not stalled are never retried.
const stallThreshold = 400 * time.Millisecond

// evalCase runs check on c, re-evaluating stalled failures.
func evalCase[C any](check func(C, *Obs) error, c C, js []byte) (*Obs, error, int) {
	fp := fingerprint(js)
	watchdogCtx.caseJSON = js
	noteCurrentCase(js)
	o := &Obs{fp: fp}
	start := time.Now()
	err := safeCheck(check, c, o)
	discarded := 0
	for try := 0; err != nil && time.Since(start) >= stallThreshold && try < 3; try++ {
		o2 := &Obs{fp: fp}
		start = time.Now()
		err2 := safeCheck(check, c, o2)
		if err2 == nil {
			discarded++
		}
		o, err = o2, err2
	}
	return o, err, discarded
}

// RunProp is the common driver of a property part: regression cases first,
// then replay mode or a rapid search.  Every failing case is written out as
// JSON each time it fails; rapid re-executes the shrunk case last, so the file
// left behind is the minimal reproduction.
func RunProp[C any](t *testing.T, id, part string, gen func(*rapid.T) C, check func(C, *Obs) error) {
	watchdogCtx.id, watchdogCtx.part, watchdogCtx.test = id, part, t.Name()
	st := newStats(id, part)
	defer st.flush()
	defer clearCurrentCase()

	runOne := func(c C, src string) error {
		js, jerr := json.Marshal(c)
		if jerr != nil {
			t.Fatalf("harness: case not serialisable: %v", jerr)
		}
		watchdogCtx.caseJSON = js
		o, err, discarded := evalCase(check, c, js)
		st.commit(o, js)
		if discarded > 0 {
			st.Classes["stalled_failing_evaluation_not_reproduced"] += int64(discarded)
		}
		if err != nil {
			writeFail(id, part, t.Name(), js, err)
		}
		return err
	}

	if os.Getenv("VERIF_MODE") == "replay" {
		path := os.Getenv("VERIF_CASE")
		c, err := loadCase[C](path)
		if err != nil {
			t.Fatalf("harness: %v", err)
		}
		if err := runOne(c, path); err != nil {
			t.Fatalf("replay %s: %v", path, err)
		}
		return
	}

	// committed regression cases
	if dir := os.Getenv("VERIF_REGRESS"); dir != "" && shardIndex() == 0 {
		files, _ := filepath.Glob(filepath.Join(dir, id, part+".*.json"))
		sort.Strings(files)
		for _, f := range files {
			c, err := loadCase[C](f)
			if err != nil {
				t.Fatalf("harness: %v", err)
			}
			if err := runOne(c, f); err != nil {
				t.Fatalf("regression case %s: %v", f, err)
			}
			st.Classes["regression_cases"]++
		}
	}

	if gen == nil {
		return
	}
	rapid.Check(t, func(rt *rapid.T) {
		c := gen(rt)
		if err := runOne(c, "rapid"); err != nil {
			rt.Fatalf("%v", err)
		}
	})
}

// RunEnum is RunProp for a finite enumeration: enum yields every case of the
// shard (the caller shards by VERIF_SHARD_INDEX / VERIF_NSHARDS).
func RunEnum[C any](t *testing.T, id, part string, enum func(yield func(C) bool), check func(C, *Obs) error) {
	watchdogCtx.id, watchdogCtx.part, watchdogCtx.test = id, part, t.Name()
	st := newStats(id, part)
	defer st.flush()
	defer clearCurrentCase()
	runOne := func(c C) error {
		js, jerr := json.Marshal(c)
		if jerr != nil {
			t.Fatalf("harness: case not serialisable: %v", jerr)
		}
		o, err, discarded := evalCase(check, c, js)
		st.commit(o, js)
		if discarded > 0 {
			st.Classes["stalled_failing_evaluation_not_reproduced"] += int64(discarded)
		}
		if err != nil {
			writeFail(id, part, t.Name(), js, err)
		}
		return err
	}
	if os.Getenv("VERIF_MODE") == "replay" {
		c, err := loadCase[C](os.Getenv("VERIF_CASE"))
		if err != nil {
			t.Fatalf("harness: %v", err)
		}
		if err := runOne(c); err != nil {
			t.Fatalf("replay %s: %v", os.Getenv("VERIF_CASE"), err)
		}
		return
	}
	if dir := os.Getenv("VERIF_REGRESS"); dir != "" && shardIndex() == 0 {
		files, _ := filepath.Glob(filepath.Join(dir, id, part+".*.json"))
		sort.Strings(files)
		for _, f := range files {
			c, err := loadCase[C](f)
			if err != nil {
				t.Fatalf("harness: %v", err)
			}
			if err := runOne(c); err != nil {
				t.Fatalf("regression case %s: %v", f, err)
			}
		}
	}
	var first error
	enum(func(c C) bool {
		if err := runOne(c); err != nil {
			first = err
			return false
		}
		return true
	})
	if first != nil {
		t.Fatalf("%v", first)
	}
}

// shardIndex / shardCount give the position of this process among the shards
// of an enumeration.
func shardIndex() int {
	n, _ := strconv.Atoi(os.Getenv("VERIF_SHARD_INDEX"))
	return n
}

func shardCount() int {
	n, _ := strconv.Atoi(os.Getenv("VERIF_NSHARDS"))
	if n < 1 {
		n = 1
	}
	return n
}

func loadCase[C any](path string) (C, error) {
	var c C
	b, err := os.ReadFile(path)
	if err != nil {
		return c, err
	}
	var fr failRecord
	if json.Unmarshal(b, &fr) == nil && len(fr.Case) > 0 {
		b = fr.Case
	}
	if err := json.Unmarshal(b, &c); err != nil {
		return c, fmt.Errorf("decode %s: %w", path, err)
	}
	return c, nil
}
