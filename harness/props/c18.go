package props

import (
	"context"
	"crypto/tls"
	"encoding/base64"
	"errors"
	"fmt"
	"net"
	"net/http"
	"net/http/httptrace"
	"net/url"
	"strings"
	"sync"
	"time"

	"github.com/gorilla/websocket"
	"pgregory.net/rapid"
)

// DialCell is one cell of the dial-path matrix.
type DialCell struct {
	Proxy  string `json:"proxy"`  // "" | http | https | socks5
	Secure bool   `json:"secure"` // wss
	ND     bool   `json:"net_dial"`
	NDC    bool   `json:"net_dial_context"`
	NDTLS  bool   `json:"net_dial_tls_context"`
	Creds  string `json:"creds"` // "" | user | user:pw
	Cert   string `json:"cert"`  // valid | otherhost | untrusted
	// Hosts: URL hosts dialed one after the other on the same Dialer.
	Hosts      []string `json:"hosts"`
	ProxyHost  string   `json:"proxy_host"`
	ProxyReply string   `json:"proxy_reply,omitempty"`
	// NilTLS: leave Dialer.TLSClientConfig nil (verification against the
	// system roots must then fail; SNI is still observable).
	NilTLS bool `json:"nil_tls,omitempty"`
	// ViaNewClient (no proxy, no custom dial function): the deprecated
	// NewClient entry point over a connection supplied by the caller; it has
	// no TLS configuration, so wss needs the system roots and must fail
	// against the in-process CA - after a TLS handshake for the URL's host.
	ViaNewClient bool `json:"via_newclient,omitempty"`
	// HostHeader: the caller overrides the Host header of the upgrade request;
	// this names the virtual host, not the server to reach or to verify.
	HostHeader string `json:"host_header,omitempty"`
	// HookTLS (wss, no proxy, first hop by NetDial / NetDialContext): the custom
	// dial function returns a *tls.Conn of its own making (a TLS-wrapped relay
	// hop, established without verification).  Only NetDialTLSContext is trusted
	// to have done TLS: the library must still run and verify its own TLS
	// session for the URL's host inside whatever the function returned - here
	// that cannot succeed, so Dial fails and the backend sees no handshake.
	HookTLS bool `json:"hook_tls,omitempty"`
	// Traced: the dial goes through DialContext with an httptrace.ClientTrace
	// (all hooks set) in the context; observing a dial changes nothing about it.
	Traced bool `json:"traced,omitempty"`
}

var cellHosts = []string{"backend.test", "backend.test:8443", "b2.backend.test:80", "[2001:db8::1]", "[2001:db8::1]:9000", "10.1.2.3", "10.1.2.3:443", "localhost:8080", "backend.test:443", "backend.test:80"}

func hostNoPortRef(h string) (host, port string) {
	if i := strings.LastIndex(h, ":"); i > strings.LastIndex(h, "]") {
		return h[:i], h[i+1:]
	}
	return h, ""
}

func withDefaultPort(h, def string) string {
	if _, p := hostNoPortRef(h); p != "" {
		return h
	}
	return h + ":" + def
}

func enumDialCells(yield func(DialCell) bool) {
	idx := 0
	n, k := shardCount(), shardIndex()
	bools := []bool{false, true}
	for _, proxy := range []string{"", "http", "https", "socks5"} {
		for _, secure := range bools {
			for _, nd := range bools {
				for _, ndc := range bools {
					for _, ndtls := range bools {
						for _, creds := range []string{"", "user", "ws:pw~ab%3F"} {
							for _, cert := range []string{"valid", "otherhost", "untrusted"} {
								idx++
								if (idx-1)%n != k {
									continue
								}
								h1 := cellHosts[idx%len(cellHosts)]
								h2 := cellHosts[(idx/3+5)%len(cellHosts)]
								c := DialCell{Proxy: proxy, Secure: secure, ND: nd, NDC: ndc, NDTLS: ndtls, Creds: creds, Cert: cert, Hosts: []string{h1, h2}, ProxyHost: []string{"proxy.test:3128", "proxy.test"}[idx%2]}
								if !yield(c) {
									return
								}
							}
						}
					}
				}
			}
		}
	}
}

var refusals = []string{
	"HTTP/1.1 407 Proxy Authentication Required\r\nProxy-Authenticate: Basic realm=x\r\n\r\n",
	"HTTP/1.1 407\r\n\r\n",
	"HTTP/1.1 403 Forbidden\r\nContent-Length: 5\r\n\r\nhello",
	"HTTP/1.1 201 Created\r\n\r\n",
	"HTTP/1.1 202 Accepted\r\n\r\n",
	"HTTP/1.1 204 No Content\r\n\r\n",
	"HTTP/1.1 299 Whatever\r\n\r\n",
	"HTTP/1.1 302 Found\r\nLocation: http://elsewhere/\r\n\r\n",
	"HTTP/1.1 500 Internal Server Error\r\n\r\n",
	"HTTP/1.1 502 Bad Gateway\r\nContent-Length: 0\r\n\r\n",
	"HTTP/1.1 100 Continue\r\n\r\n",
	"HTTP/1.0 404 Not Found\r\n\r\n",
	"HTTP/1.1 503 \r\n\r\n",
}

func genDialCell(t *rapid.T) DialCell {
	var c DialCell
	c.Proxy = rapid.SampledFrom([]string{"", "http", "http", "https", "https", "socks5", "socks5h", "socks4"}).Draw(t, "proxy")
	c.Secure = rapid.Bool().Draw(t, "secure")
	c.ND, c.NDC, c.NDTLS = rapid.Bool().Draw(t, "nd"), rapid.Bool().Draw(t, "ndc"), rapid.Bool().Draw(t, "ndtls")
	if !c.ND && !c.NDC && !c.NDTLS {
		if c.Proxy == "" {
			c.ViaNewClient = true
		} else {
			c.NDC = true
		}
	}
	c.Creds = rapid.SampledFrom([]string{"", "user", "user:pw", "u%40x:p%3Aw", "ws:pw~ab%3F", "%3E%3E%3E:%3F%3F%3F", "%C3%BC%C3%B1%C3%AE:%E2%82%AC%E2%82%AC", "a:", ":b"}).Draw(t, "creds")
	c.Cert = rapid.SampledFrom([]string{"valid", "valid", "otherhost", "untrusted"}).Draw(t, "cert")
	n := rapid.IntRange(1, 3).Draw(t, "nhosts")
	for i := 0; i < n; i++ {
		c.Hosts = append(c.Hosts, rapid.SampledFrom(cellHosts).Draw(t, "host"))
	}
	c.ProxyHost = rapid.SampledFrom([]string{"proxy.test:3128", "proxy.test", "proxy.test:80", "127.0.0.1:8888"}).Draw(t, "proxyhost")
	if (c.Proxy == "http" || c.Proxy == "https") && rapid.IntRange(0, 2).Draw(t, "refuse") == 0 {
		c.ProxyReply = rapid.SampledFrom(refusals).Draw(t, "refusal")
	}
	c.NilTLS = rapid.IntRange(0, 5).Draw(t, "niltls") == 0
	if c.Proxy == "" && c.Secure && (c.ND || c.NDC) && !c.NDTLS && rapid.Bool().Draw(t, "hook_tls") {
		c.HookTLS = true
	}
	if rapid.IntRange(0, 3).Draw(t, "host_header") == 0 {
		c.HostHeader = rapid.SampledFrom([]string{"virtual.example", "other.test:8443", "backend.test"}).Draw(t, "host_header_v")
	}
	c.Traced = rapid.IntRange(0, 2).Draw(t, "traced") == 0
	return c
}

type hookLog struct {
	mu    sync.Mutex
	calls []string // "NetDial tcp addr"
	logs  []*PeerLog
	ends  []interface{ Close() error }
}

func checkC18(c DialCell, o *Obs) error {
	// socks5h is SOCKS5 with names resolved by the proxy (the client sends
	// names either way); any other scheme is not a proxy the library knows
	proxyScheme := c.Proxy
	if c.Proxy == "socks5h" {
		c.Proxy = "socks5"
	}
	unknownProxy := c.Proxy != "" && c.Proxy != "http" && c.Proxy != "https" && c.Proxy != "socks5"
	entitySecure := c.Proxy == "https" || (c.Proxy == "" && c.Secure)
	wantFn := "NetDial"
	switch {
	case entitySecure && c.NDTLS:
		wantFn = "NetDialTLSContext"
	case c.NDC:
		wantFn = "NetDialContext"
	case c.ND:
		wantFn = "NetDial"
	default:
		// no applicable custom dial function: the library's default net.Dialer
		// makes the first hop; it is pointed at a loopback listener whose
		// accepted connections are served by the same in-process peers.
		wantFn = "default"
	}
	viaNewClient := c.ViaNewClient && c.Proxy == "" && wantFn == "default"
	if viaNewClient {
		wantFn = "NewClient"
		c.NilTLS = true
	}
	if u, pw, ok := strings.Cut(c.Creds, ":"); c.Proxy == "socks5" && ok && (u == "" || pw == "") {
		// RFC 1929 requires non-empty user name and password; what the SOCKS5
		// client does with an empty one is not classified by the statement
		o.Class("socks5_empty_credential_part_unspecified")
		return nil
	}
	spec := PeerSpec{ProxyKind: c.Proxy, ProxyReply: c.ProxyReply, BackendCert: c.Cert}
	spec.ProxyTLS = c.Proxy == "https" && !c.NDTLS
	spec.BackendTLS = c.Secure && !(c.Proxy == "" && c.NDTLS)

	hl := &hookLog{}
	var ln net.Listener
	if wantFn == "default" {
		var err error
		ln, err = net.Listen("tcp", "127.0.0.1:0")
		if err != nil {
			o.Class("skipped_no_loopback")
			return nil
		}
		defer ln.Close()
		go func() {
			for {
				nc, err := ln.Accept()
				if err != nil {
					return
				}
				log := &PeerLog{done: make(chan struct{})}
				hl.mu.Lock()
				hl.calls = append(hl.calls, "default tcp "+ln.Addr().String())
				hl.logs = append(hl.logs, log)
				hl.ends = append(hl.ends, nc)
				hl.mu.Unlock()
				go func() {
					defer close(log.done)
					defer nc.Close()
					runPeer(nc, spec, log)
				}()
			}
		}()
		// the first hop must reach the listener
		c.Hosts = append([]string(nil), c.Hosts...)
		if c.Proxy != "" {
			c.ProxyHost = ln.Addr().String()
		} else {
			for i := range c.Hosts {
				c.Hosts[i] = ln.Addr().String()
			}
		}
		o.Class("firsthop_default_dialer_over_loopback")
	}
	hookTLS := c.HookTLS && c.Proxy == "" && c.Secure && (wantFn == "NetDial" || wantFn == "NetDialContext")
	mk := func(name string) func(ctx context.Context, network, addr string) (net.Conn, error) {
		return func(ctx context.Context, network, addr string) (net.Conn, error) {
			end, log := startPeer(spec)
			hl.mu.Lock()
			hl.calls = append(hl.calls, name+" "+network+" "+addr)
			hl.logs = append(hl.logs, log)
			hl.ends = append(hl.ends, end)
			hl.mu.Unlock()
			if hookTLS {
				return tls.Client(end, &tls.Config{InsecureSkipVerify: true, ServerName: "relay.test"}), nil
			}
			return end, nil
		}
	}
	proxyAsked := 0
	d := websocket.Dialer{}
	if c.ND {
		f := mk("NetDial")
		d.NetDial = func(network, addr string) (net.Conn, error) { return f(context.Background(), network, addr) }
	}
	if c.NDC {
		d.NetDialContext = mk("NetDialContext")
	}
	if c.NDTLS {
		d.NetDialTLSContext = mk("NetDialTLSContext")
	}
	if !c.NilTLS {
		d.TLSClientConfig = &tls.Config{RootCAs: getPKI().pool}
	}
	if c.Proxy != "" {
		pu := proxyScheme + "://"
		if c.Creds != "" {
			pu += c.Creds + "@"
		}
		pu += c.ProxyHost
		purl, err := url.Parse(pu)
		if err != nil {
			return fmt.Errorf("harness: proxy url %q: %v", pu, err)
		}
		// A Proxy function need not be pure (rotation, health checks): it is
		// asked once per dial; what it said then holds for the whole dial.  A
		// second question within the same dial is answered "no proxy".
		d.Proxy = func(r *http.Request) (*url.URL, error) {
			proxyAsked++
			if proxyAsked > 1 {
				return nil, nil
			}
			// like http.ProxyFromEnvironment (the DefaultDialer's Proxy), it
			// chooses by the request's URL: only http and https requests have a
			// proxy, and the URL names the backend
			if r == nil || r.URL == nil || (r.URL.Scheme != "http" && r.URL.Scheme != "https") {
				return nil, nil
			}
			return purl, nil
		}
	}
	defer func() {
		for i, e := range hl.ends {
			e.Close()
			hl.logs[i].wait()
		}
	}()

	for hi, host := range c.Hosts {
		scheme := "ws"
		if c.Secure {
			scheme = "wss"
		}
		hl.mu.Lock()
		callsBefore := len(hl.calls)
		hl.mu.Unlock()
		proxyAsked = 0
		var conn *websocket.Conn
		var err error
		var hdr http.Header
		if c.HostHeader != "" {
			hdr = http.Header{"Host": {c.HostHeader}}
		}
		if viaNewClient {
			u, perr := url.Parse(scheme + "://" + host + "/path?q=1")
			if perr != nil {
				return fmt.Errorf("harness: url: %v", perr)
			}
			nc, _ := mk("NewClient")(context.Background(), "tcp", withDefaultPort(host, map[bool]string{false: "80", true: "443"}[c.Secure]))
			conn, _, err = websocket.NewClient(nc, u, hdr, 0, 0)
		} else {
			ctx := context.Background()
			if c.Traced {
				ctx = httptrace.WithClientTrace(ctx, &httptrace.ClientTrace{
					GetConn:              func(string) {},
					GotConn:              func(httptrace.GotConnInfo) {},
					GotFirstResponseByte: func() {},
					TLSHandshakeStart:    func() {},
					TLSHandshakeDone:     func(tls.ConnectionState, error) {},
					WroteHeaders:         func() {},
					WroteRequest:         func(httptrace.WroteRequestInfo) {},
				})
			}
			conn, _, err = d.DialContext(ctx, scheme+"://"+host+"/path?q=1", hdr)
		}
		if (conn == nil) == (err == nil) {
			return fmt.Errorf("dial %d: Dial returned conn=%v err=%v", hi, conn != nil, err)
		}
		if hookTLS {
			hl.mu.Lock()
			var ur int
			for _, lg := range hl.logs {
				lg.mu.Lock()
				ur += lg.UpgradeReqs
				lg.mu.Unlock()
			}
			hl.mu.Unlock()
			if conn != nil {
				conn.Close()
			}
			for _, e := range hl.ends {
				e.Close()
			}
			for _, lg := range hl.logs {
				lg.wait()
			}
			if err == nil || ur != 0 {
				return fmt.Errorf("dial %d: %s returned a *tls.Conn it had set up without verification; Dial returned err=%v and the backend received %d upgrade request(s) - the handshake was sent in a TLS session the library never verified for %q (only NetDialTLSContext is trusted to have done TLS)", hi, wantFn, err, ur, host)
			}
			o.Class("dial_function_returning_tls_conn_not_trusted")
			continue
		}
		if unknownProxy {
			// a proxy of a kind the library cannot drive: the backend must not be
			// reached some other way
			hl.mu.Lock()
			n := len(hl.calls) - callsBefore
			var ur int
			for _, lg := range hl.logs {
				lg.mu.Lock()
				ur += lg.UpgradeReqs
				lg.mu.Unlock()
			}
			hl.mu.Unlock()
			if err == nil || ur != 0 {
				return fmt.Errorf("dial %d: proxy URL scheme %q is not one the library can drive, yet Dial returned err=%v after %d dial call(s) and the backend received %d upgrade request(s): the configured proxy was bypassed", hi, proxyScheme, err, n, ur)
			}
			o.Class("unknown_proxy_scheme_refused")
			continue
		}
		// ---- first hop
		if wantFn == "default" {
			// the accept goroutine registers the connection asynchronously
			for i := 0; i < 2000; i++ {
				hl.mu.Lock()
				n := len(hl.calls) - callsBefore
				hl.mu.Unlock()
				if n >= 1 {
					break
				}
				time.Sleep(time.Millisecond)
			}
		}
		hl.mu.Lock()
		ncalls := len(hl.calls) - callsBefore
		hl.mu.Unlock()
		if n := ncalls; n != 1 {
			return fmt.Errorf("dial %d to %s via proxy %q: %d custom dial calls, want exactly 1 (the first hop): %v", hi, host, c.Proxy, n, hl.calls[callsBefore:])
		}
		hl.mu.Lock()
		call := hl.calls[len(hl.calls)-1]
		log := hl.logs[len(hl.logs)-1]
		lastEnd := hl.ends[len(hl.ends)-1]
		hl.mu.Unlock()
		wantAddr := withDefaultPort(host, map[bool]string{false: "80", true: "443"}[c.Secure])
		if c.Proxy != "" {
			wantAddr = withDefaultPort(c.ProxyHost, map[string]string{"http": "80", "https": "443", "socks5": "1080"}[c.Proxy])
		}
		if call != wantFn+" tcp "+wantAddr {
			return fmt.Errorf("dial %d: first hop made by %q, want %q (NetDial=%v NetDialContext=%v NetDialTLSContext=%v, proxy %q, wss=%v)", hi, call, wantFn+" tcp "+wantAddr, c.ND, c.NDC, c.NDTLS, c.Proxy, c.Secure)
		}
		if conn != nil {
			conn.Close()
		}
		lastEnd.Close()
		log.wait()
		log.mu.Lock()
		lg := struct {
			cr, sr, ur, after     int
			ct, auth, st, su, sp  string
			sauth, tlsDone, inTLS bool
			bsni, psni            string
			errs                  []string
		}{log.ConnectReqs, log.SocksReqs, log.UpgradeReqs, log.BytesAfterRefusal, log.ConnectTarget, strings.Join(log.ProxyAuth, "|"), log.SocksTarget, log.SocksUser, log.SocksPass, log.SocksAuthUsed, log.BackendTLSDone, log.UpgradeInsideTLS, log.BackendSNI, log.ProxySNI, append([]string(nil), log.Errors...)}
		upTarget := log.UpgradeTarget
		log.mu.Unlock()

		target := withDefaultPort(host, map[bool]string{false: "80", true: "443"}[c.Secure])
		hostOnly, _ := hostNoPortRef(host)
		// ---- proxy
		refused := c.ProxyReply != ""
		switch c.Proxy {
		case "http", "https":
			if spec.ProxyTLS && lg.psni != "proxy.test" && !strings.HasPrefix(c.ProxyHost, "127.") {
				return fmt.Errorf("dial %d: TLS to the https proxy used SNI %q, want proxy.test", hi, lg.psni)
			}
			if spec.ProxyTLS && c.NilTLS {
				// proxy certificate cannot verify against system roots
				if err == nil {
					return fmt.Errorf("dial %d: https proxy with an untrusted certificate accepted", hi)
				}
				o.Class("https_proxy_untrusted")
				continue
			}
			if spec.ProxyTLS && strings.HasPrefix(c.ProxyHost, "127.0.0.1") {
				// proxy certificate is valid for 127.0.0.1 too
			}
			if lg.cr != 1 {
				return fmt.Errorf("dial %d: proxy received %d CONNECT requests, want exactly 1 (errors: %v, dial error: %v)", hi, lg.cr, lg.errs, err)
			}
			if lg.ct != target {
				return fmt.Errorf("dial %d: CONNECT target %q, want %q for URL host %q (wss=%v)", hi, lg.ct, target, host, c.Secure)
			}
			wantAuth := ""
			if u, pw, ok := strings.Cut(c.Creds, ":"); ok {
				uu, _ := url.PathUnescape(u)
				pp, _ := url.PathUnescape(pw)
				wantAuth = "Basic " + base64.StdEncoding.EncodeToString([]byte(uu+":"+pp))
			}
			if lg.auth != wantAuth {
				return fmt.Errorf("dial %d: Proxy-Authorization %q, want %q for proxy credentials %q", hi, lg.auth, wantAuth, c.Creds)
			}
			if refused {
				if err == nil {
					return fmt.Errorf("dial %d: proxy answered %q to CONNECT but Dial succeeded", hi, strings.SplitN(c.ProxyReply, "\r\n", 2)[0])
				}
				if lg.ur != 0 || lg.after != 0 {
					return fmt.Errorf("dial %d: proxy answered %q but the client went on sending (%d bytes, %d upgrade requests)", hi, strings.SplitN(c.ProxyReply, "\r\n", 2)[0], lg.after, lg.ur)
				}
				o.Class("proxy_refusal")
				o.NonTrivial(fmt.Sprint(hi))
				continue
			}
		case "socks5":
			if lg.sr != 1 {
				return fmt.Errorf("dial %d: SOCKS5 proxy received %d CONNECT commands, want 1 (errors %v; dial error %v)", hi, lg.sr, lg.errs, err)
			}
			st := lg.st
			if st != target && st != strings.Trim(hostOnly, "[]")+target[len(hostOnly):] {
				// IPv6 literals are sent as addresses: compare after normalising brackets
				h1, p1 := hostNoPortRef(st)
				h2, p2 := hostNoPortRef(target)
				ip1, ip2 := net.ParseIP(strings.Trim(h1, "[]")), net.ParseIP(strings.Trim(h2, "[]"))
				if p1 != p2 || ip1 == nil || ip2 == nil || !ip1.Equal(ip2) {
					return fmt.Errorf("dial %d: SOCKS5 CONNECT target %q, want %q", hi, lg.st, target)
				}
			}
			if u, pw, ok := strings.Cut(c.Creds, ":"); ok {
				uu, _ := url.PathUnescape(u)
				pp, _ := url.PathUnescape(pw)
				if !lg.sauth || lg.su != uu || lg.sp != pp {
					return fmt.Errorf("dial %d: SOCKS5 username/password sub-negotiation used=%v user=%q pass=%q, want %q/%q", hi, lg.sauth, lg.su, lg.sp, uu, pp)
				}
			} else if c.Creds == "" && lg.sauth {
				return fmt.Errorf("dial %d: SOCKS5 credentials sent although the proxy URL has none", hi)
			}
		}
		// ---- TLS to the backend
		if spec.BackendTLS {
			if lg.bsni != "" || net.ParseIP(strings.Trim(hostOnly, "[]")) == nil {
				if lg.bsni != hostOnly && !(net.ParseIP(strings.Trim(hostOnly, "[]")) != nil && lg.bsni == "") {
					return fmt.Errorf("dial %d: TLS handshake with the backend used server name %q, want %q (the URL's host)", hi, lg.bsni, hostOnly)
				}
			}
			mustFail := c.Cert != "valid" || c.NilTLS
			if mustFail {
				if err == nil {
					return fmt.Errorf("dial %d: wss://%s via proxy %q succeeded although the backend certificate is %s (TLSClientConfig nil=%v)", hi, host, c.Proxy, c.Cert, c.NilTLS)
				}
				if lg.ur != 0 {
					return fmt.Errorf("dial %d: the backend received the upgrade request although its certificate (%s) must not verify", hi, c.Cert)
				}
				o.Class("bad_certificate_refused")
				o.NonTrivial(fmt.Sprint(hi))
				continue
			}
			if !lg.tlsDone {
				return fmt.Errorf("dial %d: TLS with the backend did not complete: %v; dial error %v", hi, lg.errs, err)
			}
		}
		if err != nil {
			return fmt.Errorf("dial %d to %s://%s via proxy %q (cert %s) failed: %v (peer: %v)", hi, scheme, host, c.Proxy, c.Cert, err, lg.errs)
		}
		if lg.ur == 1 && upTarget != "/path?q=1" {
			// through a tunnel (or directly) the backend is an origin server: the
			// request-target is path and query, never the absolute form a proxy gets
			return fmt.Errorf("dial %d via proxy %q: the backend's upgrade request has request-target %q, want \"/path?q=1\"", hi, c.Proxy, upTarget)
		}
		if lg.ur != 1 {
			return fmt.Errorf("dial %d: backend received %d upgrade requests", hi, lg.ur)
		}
		if spec.BackendTLS && !lg.inTLS {
			return fmt.Errorf("dial %d: the upgrade request for a wss URL was not sent inside TLS", hi)
		}
		if len(lg.errs) > 0 {
			return fmt.Errorf("dial %d: peer observed errors: %v", hi, lg.errs)
		}
		o.Class("dial_ok")
	}
	o.Class("proxy_" + proxyScheme)
	o.ClassIf(c.Secure, "wss")
	o.Class("firsthop_" + wantFn)
	if c.Proxy != "" || c.Secure {
		o.NonTrivial("")
	}
	return nil
}

var _ = errors.New
