package props

import (
	"fmt"
	"io"

	"github.com/gorilla/websocket"

	"verifharness/xport"
)

// knownProbes maps a known-finding signature to a deterministic probe that
// reports whether the finding still reproduces on the current tree.
var knownProbes = map[string]func() (bool, string){
	SigCtlReadFromFull: probeCtlReadFromFull,
}

func probeCtlReadFromFull() (bool, string) {
	tr := xport.NewScriptConn(nil, nil)
	c, err := NewConn(ConnCfg{Server: true, WriteBuf: 125}, tr, nil)
	if err != nil {
		return false, err.Error()
	}
	w, err := c.NextWriter(websocket.PingMessage)
	if err != nil {
		return false, err.Error()
	}
	_, err = w.(io.ReaderFrom).ReadFrom(&chunkSrc{data: make([]byte, 125)})
	if err == nil {
		err = w.Close()
	}
	if err != nil {
		return true, fmt.Sprintf("server, WriteBufferSize 125, NextWriter(PingMessage)+ReadFrom(125 bytes): %v", err)
	}
	return false, "accepted"
}
