package props

import (
	"bytes"
	"errors"
	"fmt"
	"io"
	"time"

	"github.com/gorilla/websocket"
	"pgregory.net/rapid"

	"verifharness/xport"
)

// FaultCase is a valid stream that is cut at every offset by every kind of
// transport fault.
type FaultCase struct {
	ReadCase
	// Later is the number of NextReader calls made after the first error.
	Later int `json:"later"`
	// OnlyOffset/OnlyKind restrict the enumeration (replay of a shrunk
	// sub-case); -1/"" = all.
	OnlyOffset int    `json:"only_offset"`
	OnlyKind   string `json:"only_kind,omitempty"`
	// Join: the whole stream is read through one JoinMessages reader (with
	// terminator Term) instead of the read program.
	Join bool   `json:"join,omitempty"`
	Term string `json:"term,omitempty"`
	// ReArm: like a retry loop, the application sets a new read deadline
	// (none, or a future one) before every call that follows the first error.
	ReArm bool `json:"rearm,omitempty"`
	// Limit: 0 none; 1 SetReadLimit(largest message's wire size); 2 SetReadLimit(2^30).
	Limit int `json:"limit,omitempty"`
	// LocalClose: the application has sent its own close frame before it reads
	// (and goes on reading until the peer's close or the end of the transport).
	LocalClose bool `json:"local_close,omitempty"`
	// WriteDead: every transport write fails with a plain error from the
	// start (no automatic reply gets out); what is read is unaffected.
	WriteDead bool `json:"write_dead,omitempty"`
	// JSON: every message is a JSON document (numbers, strings, arrays whose
	// proper prefixes are often documents too) and the stream is consumed with
	// ReadJSON: a value may be returned only for a message that arrived whole.
	JSON bool `json:"json,omitempty"`
}

type faultKind struct {
	name     string
	kind     string
	withData bool
	resume   bool
}

var faultKinds = []faultKind{
	{"eof", xport.FaultEOF, false, false},
	{"eof+data", xport.FaultEOF, true, false},
	{"error", xport.FaultError, false, false},
	{"error+data", xport.FaultError, true, false},
	{"timeout", xport.FaultTimeout, false, false},
	{"timeout+data", xport.FaultTimeout, true, false},
	{"timeout,resumes", xport.FaultTimeout, false, true},
	{"error+data,resumes", xport.FaultError, true, true},
	{"io.ErrUnexpectedEOF", xport.FaultUnexpectedEOF, false, false},
	{"io.ErrUnexpectedEOF+data", xport.FaultUnexpectedEOF, true, false},
	// a net.Error that calls itself temporary without being a timeout
	{"temporary", xport.FaultTemporary, false, false},
	{"temporary+data,resumes", xport.FaultTemporary, true, true},
}

func genFaultCase(t *rapid.T) FaultCase {
	var c FaultCase
	c.R = genReaderCfg(t)
	maxLen := rapid.SampledFrom([]int{40, 200, 200, 700, 5000}).Draw(t, "maxlen")
	c.S = genStream(t, SGenOpts{MaxMsgs: 3, Compression: c.R.Compress, R: c.R.ReadBuf, MaxLen: maxLen})
	c.Chunks = genChunks(t, "chunks", 600)
	c.Reads = genReadProgram(t, c.R.ReadBuf, true, false)
	for i := range c.Reads {
		if c.Reads[i].Op == "join" {
			c.Reads[i] = RStep{Op: "readmessage", Abandon: -1}
		}
	}
	c.Later = rapid.SampledFrom([]int{1, 3, 3, 10, 900}).Draw(t, "later")
	c.OnlyOffset = -1
	if rapid.IntRange(0, 7).Draw(t, "json_stream") == 0 {
		c.JSON = true
		for i := range c.S.Msgs {
			js := rapid.SampledFrom([]string{"1234567890", "12.5e10", " 77 ", "-40000000001", `"a string value"`, "[1,2,3,40000]", `{"a":1234,"b":[true,null]}`, "true", "123456789012345678901234567890"}).Draw(t, "json_doc")
			c.S.Msgs[i].Op = 1
			c.S.Msgs[i].Data = Payload{Len: len(js), Kind: "raw", Raw: []byte(js)}
		}
	}
	c.ReArm = rapid.Bool().Draw(t, "rearm")
	c.Limit = rapid.SampledFrom([]int{0, 0, 1, 2}).Draw(t, "limit")
	c.LocalClose = rapid.IntRange(0, 3).Draw(t, "local_close") == 0
	c.WriteDead = !c.LocalClose && rapid.IntRange(0, 3).Draw(t, "write_dead") == 0
	if rapid.IntRange(0, 5).Draw(t, "join") == 0 {
		c.Join = true
		c.Term = rapid.SampledFrom([]string{"\n", "||", "\n", ""}).Draw(t, "term")
	}
	return c
}

func countInside(model *Model, x int) int {
	n := 0
	for _, m := range model.Msgs {
		if m.End <= x {
			n++
		}
	}
	return n
}

// offsetClass names where a cut offset falls.
func offsetClass(model *Model, off int) string {
	if off == len(model.Wire) {
		return "at_end"
	}
	for i, fo := range model.FrameOff {
		f := model.Frames[i]
		end := len(model.Wire)
		if i+1 < len(model.FrameOff) {
			end = model.FrameOff[i+1]
		}
		if off < fo || off >= end {
			continue
		}
		hdr := end - fo - len(f.Payload)
		switch {
		case off == fo:
			if f.Opcode == 0 {
				return "between_fragments"
			}
			if i > 0 && !model.Frames[i-1].Fin && model.Frames[i-1].Opcode < 8 {
				return "between_fragments"
			}
			return "frame_boundary"
		case off < fo+hdr:
			return "inside_header"
		default:
			return "inside_payload"
		}
	}
	return "other"
}

func checkC05(c FaultCase, o *Obs) error {
	model := BuildStream(c.S, c.R.Server, c.R.Compress)
	wire := model.Wire
	var offsets []int
	if len(wire) <= 600 {
		for i := 0; i <= len(wire); i++ {
			offsets = append(offsets, i)
		}
		o.Class("offsets_exhaustive")
	} else {
		seen := map[int]bool{}
		add := func(i int) {
			if i >= 0 && i <= len(wire) && !seen[i] {
				seen[i] = true
				offsets = append(offsets, i)
			}
		}
		for i, fo := range model.FrameOff {
			hdr := 0
			if i < len(model.Frames) {
				end := len(wire)
				if i+1 < len(model.FrameOff) {
					end = model.FrameOff[i+1]
				}
				hdr = end - fo - len(model.Frames[i].Payload)
			}
			for d := -2; d <= hdr+2; d++ {
				add(fo + d)
			}
		}
		step := len(wire)/300 + 1
		for i := 0; i <= len(wire); i += step {
			add(i)
		}
		add(len(wire))
		o.Class("offsets_sampled")
	}
	lens := make([]int, len(model.Msgs))
	for i, m := range model.Msgs {
		lens[i] = len(m.Payload)
	}
	first := true
	for _, off := range offsets {
		if c.OnlyOffset >= 0 && off != c.OnlyOffset {
			continue
		}
		for _, fk := range faultKinds {
			if c.OnlyKind != "" && fk.name != c.OnlyKind {
				continue
			}
			later := 3
			if first || off == len(wire)/2 {
				later = c.Later
			}
			if !first {
				o.Evals(1)
			}
			first = false
			if err := runFault(c, model, lens, off, fk, later, o); err != nil {
				return fmt.Errorf("cut at offset %d of %d (%s), fault %q: %w", off, len(wire), offsetClass(model, off), fk.name, err)
			}
		}
	}
	return nil
}

// applyFaultCaseSettings applies the connection settings of the case that
// must not matter: a read limit no message exceeds.
func applyFaultCaseSettings(c FaultCase, model *Model, conn *websocket.Conn) {
	switch c.Limit {
	case 1:
		limit := 1
		for _, m := range model.Msgs {
			if m.WireLen > limit {
				limit = m.WireLen
			}
		}
		conn.SetReadLimit(int64(limit))
	case 2:
		conn.SetReadLimit(1 << 30)
	}
	if c.LocalClose {
		conn.WriteControl(websocket.CloseMessage, websocket.FormatCloseMessage(1001, "going away"), time.Time{})
	}
}

// runFaultJoin is runFault for a stream consumed through JoinMessages.
func runFaultJoin(c FaultCase, model *Model, off int, fk faultKind, later int, o *Obs) error {
	tr := xport.NewScriptConn(nil, nil)
	tr.NoLog = true
	conn, err := NewConn(c.R, tr, nil)
	if err != nil {
		return err
	}
	tr.SetInput(model.Wire, c.Chunks)
	tr.SetReadFault(&xport.ReadFault{Offset: off, Kind: fk.kind, WithData: fk.withData, Resume: fk.resume})
	h := &handlerLog{failAt: -1}
	h.install(conn)
	applyFaultCaseSettings(c, model, conn)
	if c.WriteDead {
		tr.SetWriteFault(&xport.WriteFault{K: 0, Kind: xport.FaultError})
	}
	var joined []byte
	var bounds []int // joined length after message i and its terminator
	for _, m := range model.Msgs {
		joined = append(joined, m.Payload...)
		joined = append(joined, c.Term...)
		bounds = append(bounds, len(joined))
	}
	sr := &sizedReader{}
	if len(c.Reads) > 0 {
		sr.sizes = c.Reads[0].Sizes
	}
	jr := websocket.JoinMessages(conn, c.Term)
	var got []byte
	var ferr error
	idle := 0
	for ferr == nil {
		buf := make([]byte, sr.next())
		k, e := jr.Read(buf)
		got = append(got, buf[:k]...)
		ferr = e
		if k == 0 && e == nil && len(buf) > 0 {
			if idle++; idle > 200 {
				return errors.New("joined reader returns (0, nil) forever")
			}
		}
		if len(got) > len(joined)+16 {
			break
		}
	}
	if !tr.ReadFaultFired() {
		return nil
	}
	a, b := off, tr.BeforeFault
	if fk.resume {
		a = tr.TotalIn
	}
	if len(got) > len(joined) || !bytes.Equal(got, joined[:len(got)]) {
		return fmt.Errorf("JoinMessages(term %q): the %d bytes delivered are not a prefix of the joined messages (differs at %d)", c.Term, len(got), firstDiff(got, joined))
	}
	if ferr == nil {
		return fmt.Errorf("JoinMessages(term %q): no error was reported after the transport fault", c.Term)
	}
	// messages the joined reader reported complete (terminator delivered)
	reported, atBoundary := 0, len(got) == 0
	for i, bd := range bounds {
		if bd <= len(got) && (c.Term != "" || bd < len(got)) {
			reported = i + 1
		}
		if bd == len(got) {
			atBoundary = true
		}
	}
	for i := 0; i < reported; i++ {
		if m := model.Msgs[i]; m.End > a && !m.SelfTerminating {
			return fmt.Errorf("JoinMessages(term %q): message %d and its terminator were delivered, but only %d of its %d wire bytes had arrived - truncated message reported as complete", c.Term, i, a-m.Start, m.End-m.Start)
		}
	}
	if ferr == io.EOF && !atBoundary {
		return fmt.Errorf("JoinMessages(term %q): the joined stream ended with io.EOF after %d bytes, in the middle of a message - a partially received message is reported as the clean end of the stream", c.Term, len(got))
	}
	if min := countInside(model, b); min > 0 && len(got) < bounds[min-1] {
		return fmt.Errorf("JoinMessages(term %q): %d messages had fully arrived before the failing transport read, but only %d of the %d bytes they join to were delivered before the error %v", c.Term, min, len(got), bounds[min-1], ferr)
	}
	for i := 0; i < later && i < 5; i++ {
		var xb [32]byte
		if c.ReArm {
			conn.SetReadDeadline(time.Now().Add(time.Hour))
		}
		if k, e := jr.Read(xb[:]); k != 0 || e == nil {
			return fmt.Errorf("JoinMessages(term %q): read %d after the error %v returned %d bytes, error %v", c.Term, i+1, ferr, k, e)
		}
	}
	cls := offsetClass(model, off)
	o.Class("joined_cut_" + cls)
	if cls == "inside_header" || cls == "inside_payload" || cls == "between_fragments" {
		o.NonTrivial(fmt.Sprintf("j%d/%s", off, fk.name))
	}
	return nil
}

// runFaultJSON is runFault for a stream consumed through ReadJSON.
func runFaultJSON(c FaultCase, model *Model, off int, fk faultKind, o *Obs) error {
	tr := xport.NewScriptConn(nil, nil)
	tr.NoLog = true
	conn, err := NewConn(c.R, tr, nil)
	if err != nil {
		return err
	}
	tr.SetInput(model.Wire, c.Chunks)
	tr.SetReadFault(&xport.ReadFault{Offset: off, Kind: fk.kind, WithData: fk.withData, Resume: fk.resume})
	h := &handlerLog{failAt: -1}
	h.install(conn)
	applyFaultCaseSettings(c, model, conn)
	for i := 0; i < len(model.Msgs)+2; i++ {
		var v interface{}
		err := conn.ReadJSON(&v)
		if err != nil {
			if isConnLevelErr(err) {
				break
			}
			continue // a decoder error for this message; the next call moves on
		}
		if i >= len(model.Msgs) {
			return fmt.Errorf("ReadJSON returned a value (%v) beyond the %d messages of the stream", v, len(model.Msgs))
		}
		a := off
		if fk.resume {
			a = tr.TotalIn
		}
		m := model.Msgs[i]
		want, werr := refJSON(m.Payload)
		if werr != nil || !jsonEqual(v, want) {
			return fmt.Errorf("ReadJSON returned %v for message %d, whose document is %s (reference value %v)", v, i, abbrev(m.Payload), want)
		}
		// (ReadJSON returns as soon as the document is complete - an array,
		// object or string before the message's last bytes or empty final
		// fragments have arrived - so only the value is judged, not the arrival
		// of the whole message)
		_ = a
	}
	if tr.ReadFaultFired() {
		cls := offsetClass(model, off)
		o.Class("json_cut_" + cls)
		if cls == "inside_payload" || cls == "inside_header" || cls == "between_fragments" {
			o.NonTrivial(fmt.Sprintf("js%d/%s", off, fk.name))
		}
	}
	return nil
}

func runFault(c FaultCase, model *Model, lens []int, off int, fk faultKind, later int, o *Obs) error {
	if c.JSON {
		return runFaultJSON(c, model, off, fk, o)
	}
	if c.Join {
		return runFaultJoin(c, model, off, fk, later, o)
	}
	tr := xport.NewScriptConn(nil, nil)
	tr.NoLog = true
	conn, err := NewConn(c.R, tr, nil)
	if err != nil {
		return err
	}
	tr.SetInput(model.Wire, c.Chunks)
	tr.SetReadFault(&xport.ReadFault{Offset: off, Kind: fk.kind, WithData: fk.withData, Resume: fk.resume})
	h := &handlerLog{failAt: -1}
	h.install(conn)
	applyFaultCaseSettings(c, model, conn)
	if c.WriteDead {
		tr.SetWriteFault(&xport.WriteFault{K: 0, Kind: xport.FaultError})
	}
	if c.ReArm {
		afterReadError = func(cn *websocket.Conn, i int) {
			if i%2 == 0 {
				cn.SetReadDeadline(time.Time{})
			} else {
				cn.SetReadDeadline(time.Now().Add(time.Hour))
			}
		}
		defer func() { afterReadError = nil }()
	}
	rt := RunRead(conn, c.Reads, len(model.Msgs)+2, lens, later)
	if !tr.ReadFaultFired() {
		// The stream's own end was reached first (offset == len and the reader
		// stopped at the close frame).  Reading must then have got through every
		// message: a reader that gives up before the transport fails has lost
		// messages that had arrived.
		if len(rt.Msgs) < len(model.Msgs) {
			return fmt.Errorf("reading stopped with %v after %d of the %d messages although the transport had not failed yet (fault armed at offset %d of %d): messages that had arrived were not reported", rt.Final, len(rt.Msgs), len(model.Msgs), off, len(model.Wire))
		}
		return nil
	}
	a := off
	b := tr.BeforeFault
	if fk.resume {
		// The transport went on delivering after the fault (as a connection does
		// after a timeout): what "had arrived" when a message was reported is
		// bounded by everything the transport delivered during the run.  (An
		// error returned together with the last bytes of a region the library
		// was skipping is not observable by it once the transport recovers.)
		a = tr.TotalIn
	}
	minMsgs, maxMsgs := countInside(model, b), countInside(model, a)

	// Count messages obtained; verify content of each.
	obtained := 0
	for mi, m := range rt.Msgs {
		if obtained >= len(model.Msgs) {
			return fmt.Errorf("read %d: a message (type %d, %s) was delivered beyond the %d the stream encodes", mi, m.MT, abbrev(m.Data), len(model.Msgs))
		}
		want := model.Msgs[obtained]
		entirely := want.End <= a
		if m.MT != want.Type {
			return fmt.Errorf("read %d: message %d delivered with type %d, sent as %d", mi, obtained, m.MT, want.Type)
		}
		if len(m.Data) > len(want.Payload) || !bytes.Equal(m.Data, want.Payload[:len(m.Data)]) {
			return fmt.Errorf("read %d: message %d: delivered bytes are not a prefix of the sent payload (differs at %d; got %d bytes %s)", mi, obtained, firstDiff(m.Data, want.Payload), len(m.Data), abbrev(m.Data))
		}
		if m.Complete {
			if !entirely && !want.SelfTerminating {
				return fmt.Errorf("read %d (%s): message %d reported complete after %d bytes, but only %d of its %d wire bytes had arrived (message spans wire [%d,%d), %d frames) — truncated message reported as complete", mi, m.Op, obtained, len(m.Data), a-want.Start, want.End-want.Start, want.Start, want.End, want.NFrames)
			}
			if len(m.Data) != len(want.Payload) {
				return fmt.Errorf("read %d: message %d reported complete with %d of %d bytes", mi, obtained, len(m.Data), len(want.Payload))
			}
		} else if m.Err != nil {
			if m.Err == io.EOF {
				return fmt.Errorf("read %d: partially received message %d ended with bare io.EOF", mi, obtained)
			}
			if entirely && want.End <= b {
				return fmt.Errorf("read %d: message %d had fully arrived before the failing transport read (wire end %d <= %d) but reading it failed: %v", mi, obtained, want.End, b, m.Err)
			}
		}
		obtained++
	}
	complete := 0
	for _, m := range rt.Msgs {
		if m.Complete || (m.Err == nil) {
			complete++
		}
	}
	if rt.Final == nil {
		return fmt.Errorf("no error was reported after the transport fault (%d messages obtained)", obtained)
	}
	if obtained < minMsgs {
		return fmt.Errorf("%d messages had fully arrived before the failing transport read, only %d were delivered before the error %v", minMsgs, obtained, rt.Final)
	}
	if complete > maxMsgs && false {
		return fmt.Errorf("%d messages reported, only %d had arrived", complete, maxMsgs)
	}
	if rt.Final == io.EOF && false {
		return errors.New("NextReader reported bare io.EOF")
	}
	for i, e := range rt.After {
		if !sameErr(e, rt.Final) {
			return fmt.Errorf("NextReader call %d after the first error returned %v; the first error was %v", i+1, e, rt.Final)
		}
	}
	if rt.AfterData {
		return errors.New("a message was delivered after NextReader had returned an error")
	}
	cls := offsetClass(model, off)
	o.Class("cut_" + cls)
	o.Class("fault_" + fk.name)
	if cls == "inside_header" || cls == "inside_payload" || cls == "between_fragments" {
		o.NonTrivial(fmt.Sprintf("%d/%s", off, fk.name))
	}
	return nil
}
