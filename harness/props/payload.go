package props

import (
	"pgregory.net/rapid"
)

// Payload describes message bytes either literally (Raw) or as a
// deterministic expansion of (Len, Kind, Seed).
type Payload struct {
	Len  int    `json:"len"`
	Kind string `json:"kind,omitempty"`
	Seed uint32 `json:"seed,omitempty"`
	Raw  []byte `json:"raw,omitempty"`
}

var payloadKinds = []string{"zeros", "ff", "counter", "prng", "text", "pat4"}

const loremText = "the quick brown fox jumps over the lazy dog; WebSocket frames carry \"text\" & binary {json:true} é世界 "

// Bytes expands the payload.
func (p Payload) Bytes() []byte {
	if p.Raw != nil || p.Kind == "raw" {
		out := make([]byte, len(p.Raw))
		copy(out, p.Raw)
		return out
	}
	b := make([]byte, p.Len)
	switch p.Kind {
	case "ff":
		for i := range b {
			b[i] = 0xff
		}
	case "counter":
		for i := range b {
			b[i] = byte(i + int(p.Seed))
		}
	case "prng":
		x := p.Seed | 1
		for i := range b {
			x ^= x << 13
			x ^= x >> 17
			x ^= x << 5
			b[i] = byte(x >> 8)
		}
	case "text":
		off := int(p.Seed % uint32(len(loremText)))
		for i := range b {
			b[i] = loremText[(off+i)%len(loremText)]
		}
	case "pat4":
		k := [4]byte{byte(p.Seed), byte(p.Seed >> 8), byte(p.Seed >> 16), byte(p.Seed >> 24)}
		for i := range b {
			b[i] = k[i&3]
		}
	default: // zeros
	}
	return b
}

// genLen draws a payload length biased to the boundaries named in the
// properties: 0, 125/126, 65535/65536, k*w and 2*(w+14) for write buffer w.
func genLen(t *rapid.T, label string, w int, allowHuge bool) int {
	if w <= 0 {
		w = 4096
	}
	choice := rapid.IntRange(0, 99).Draw(t, label+"_class")
	switch {
	case choice < 10:
		return rapid.IntRange(0, 2).Draw(t, label)
	case choice < 22:
		return rapid.IntRange(123, 129).Draw(t, label)
	case choice < 37:
		k := rapid.IntRange(1, 3).Draw(t, label+"_k")
		return max0(k*w + rapid.IntRange(-2, 2).Draw(t, label))
	case choice < 47:
		return max0(2*(w+14) + rapid.IntRange(-2, 3).Draw(t, label))
	case choice < 52:
		return max0(2*w + rapid.IntRange(-1, 30).Draw(t, label))
	case choice < 84:
		return rapid.IntRange(0, 300).Draw(t, label)
	case choice < 92:
		return rapid.IntRange(300, 5000).Draw(t, label)
	case choice < 97:
		if allowHuge {
			return rapid.IntRange(65533, 65540).Draw(t, label)
		}
		return rapid.IntRange(0, 600).Draw(t, label)
	default:
		if allowHuge {
			return rapid.IntRange(65541, 300000).Draw(t, label)
		}
		return rapid.IntRange(0, 1000).Draw(t, label)
	}
}

func max0(n int) int {
	if n < 0 {
		return 0
	}
	return n
}

// genPayloadOfLen draws the content description for a payload of length n.
func genPayloadOfLen(t *rapid.T, label string, n int) Payload {
	if n <= 24 && rapid.IntRange(0, 2).Draw(t, label+"_lit") == 0 {
		raw := rapid.SliceOfN(rapid.Byte(), n, n).Draw(t, label+"_raw")
		if raw == nil {
			raw = []byte{}
		}
		return Payload{Len: n, Kind: "raw", Raw: raw}
	}
	kind := rapid.SampledFrom(payloadKinds).Draw(t, label+"_kind")
	seed := uint32(0)
	if kind != "zeros" && kind != "ff" {
		seed = rapid.Uint32().Draw(t, label+"_seed")
	}
	return Payload{Len: n, Kind: kind, Seed: seed}
}

func genPayload(t *rapid.T, label string, w int, allowHuge bool) Payload {
	return genPayloadOfLen(t, label, genLen(t, label+"_len", w, allowHuge))
}

// genCtlPayload draws a control payload of 0..125 bytes (boundary biased).
func genCtlPayload(t *rapid.T, label string) Payload {
	var n int
	switch rapid.IntRange(0, 5).Draw(t, label+"_c") {
	case 0:
		n = 0
	case 1:
		n = 125
	case 2:
		n = rapid.IntRange(120, 125).Draw(t, label+"_n")
	default:
		n = rapid.IntRange(0, 125).Draw(t, label+"_n")
	}
	return genPayloadOfLen(t, label, n)
}

// genChunks draws a chunking plan for a stream of about n bytes: nil = as
// asked; otherwise explicit sizes (then as asked).
func genChunks(t *rapid.T, label string, n int) []int {
	switch rapid.IntRange(0, 5).Draw(t, label+"_mode") {
	case 0:
		return nil
	case 1: // one byte at a time (bounded list, then as asked)
		k := n
		if k > 400 {
			k = 400
		}
		out := make([]int, k)
		for i := range out {
			out[i] = 1
		}
		return out
	case 2: // halves
		var out []int
		for r := n; r > 1 && len(out) < 40; r -= r / 2 {
			out = append(out, r/2)
		}
		return out
	default:
		ch := rapid.SliceOfN(rapid.OneOf(rapid.IntRange(1, 16), rapid.IntRange(1, 300), rapid.IntRange(1, 5000)), 0, 60).Draw(t, label)
		// occasionally a Read that returns (0, nil): legal for an io.Reader
		if len(ch) > 0 && rapid.IntRange(0, 4).Draw(t, label+"_zero") == 0 {
			ch[rapid.IntRange(0, len(ch)-1).Draw(t, label+"_zeropos")] = -1
		}
		return ch
	}
}

// genBuf draws a buffer size (0 = library default).
func genBuf(t *rapid.T, label string) int {
	return rapid.OneOf(
		rapid.Just(0),
		rapid.SampledFrom([]int{1, 2, 16, 124, 125, 126, 127, 128, 256, 257, 1024, 4096, 65535, 65536, 70000}),
		rapid.IntRange(1, 300),
		rapid.IntRange(1, 20),
	).Draw(t, label)
}
