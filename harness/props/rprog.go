package props

import (
	"bufio"
	"bytes"
	"encoding/json"
	"errors"
	"io"
	"reflect"

	"github.com/gorilla/websocket"
	"pgregory.net/rapid"
)

// RStep says how the application reads one message (or, for join, a run of
// messages).
type RStep struct {
	// Op: readmessage | reader | json | join
	Op string `json:"op"`
	// Sizes are the successive Read sizes for op reader (cycled; empty = 512).
	Sizes []int `json:"sizes,omitempty"`
	// Abandon: -1 read to EOF; k >= 0: stop after k bytes and move on.
	Abandon int `json:"abandon"`
	// Wrap: "" | bufio | readall | copy
	Wrap string `json:"wrap,omitempty"`
	// Join: number of messages joined (op join) and the terminator.
	Join int    `json:"join,omitempty"`
	Term string `json:"term,omitempty"`
	// ExtraEOF: after EOF, read again this many times (must return no data and an error).
	ExtraEOF int `json:"extra_eof,omitempty"`
}

// RMsg is what the application observed for one message.
type RMsg struct {
	Op       string
	MT       int
	Data     []byte
	Complete bool  // the reader signalled io.EOF (or ReadMessage returned nil error)
	Err      error // error that ended the message read (nil if Complete or abandoned)
	Joined   int   // >0: Data is the concatenation of this many messages with terminators
	JSONVal  interface{}
	JSONErr  error
}

// RTrace is the outcome of a read program.
type RTrace struct {
	Msgs []RMsg
	// Final is the first error returned by NextReader/ReadMessage/ReadJSON at
	// message level (nil if the program ran out of steps/budget first).
	Final error
	// After are the errors of further NextReader calls after Final.
	After []error
	// AfterData is set if any call after Final delivered a message.
	AfterData bool
}

type sizedReader struct {
	r     io.Reader
	sizes []int
	i     int
}

func (s *sizedReader) next() int {
	if len(s.sizes) == 0 {
		return 512
	}
	n := s.sizes[s.i%len(s.sizes)]
	s.i++
	return n
}

// ReadProgress lets handlers observe how far the application has got: Req is
// the index of the message being requested/read (number of NextReader-level
// calls begun minus one), Bytes the number of bytes of that message the
// library has returned so far.
type ReadProgress struct {
	Req   int
	Bytes int
}

var curProgress *ReadProgress

// afterReadError, if set, runs before each NextReader call that follows the
// first message-level error (what an application's retry loop would do, e.g.
// arm a new read deadline).
var afterReadError func(c *websocket.Conn, i int)

// rereadSameErr (set by the checks whose property says the error is
// permanent / the same on every later read): a reader that has failed must
// fail with that same error when it is read again.
var rereadSameErr bool

// readBody reads r with the step's sizes until EOF, error or abandon point.
func readBody(r io.Reader, st RStep) (data []byte, complete bool, err error) {
	sr := &sizedReader{sizes: st.Sizes}
	zeroReads := 0
	for {
		if st.Abandon >= 0 && len(data) >= st.Abandon {
			return data, false, nil
		}
		n := sr.next()
		if st.Abandon >= 0 && n > st.Abandon-len(data) {
			n = st.Abandon - len(data)
			if n == 0 {
				return data, false, nil
			}
		}
		buf := make([]byte, n)
		k, e := r.Read(buf)
		data = append(data, buf[:k]...)
		if curProgress != nil {
			curProgress.Bytes += k
		}
		if e == io.EOF {
			for i := 0; i < st.ExtraEOF; i++ {
				var xb [8]byte
				k2, e2 := r.Read(xb[:])
				// The io.Reader contract only promises no more data; the
				// error after EOF is not specified (a compressed message
				// reader reports "closed pipe").
				if k2 != 0 || e2 == nil {
					observe("a Read after the end of a message returned %d bytes, error %v", k2, e2)
					return data, false, errors.New("harness-observed: read after end of message returned data or a nil error")
				}
			}
			return data, true, nil
		}
		if e != nil {
			// A reader that has failed stays failed: reading it again must
			// neither deliver data nor signal the end of the message (io.EOF),
			// or a retrying application takes the partial message for complete.
			for i := 0; i < 2; i++ {
				var xb [16]byte
				k2, e2 := r.Read(xb[:])
				if k2 != 0 || e2 == nil || e2 == io.EOF {
					observe("a message reader failed with %q after %d bytes; read again it returned %d bytes and error %v - a partial message is reported complete or continues", e, len(data), k2, e2)
					break
				}
				if rereadSameErr && e2.Error() != e.Error() {
					observe("a message reader failed with %q; read again it failed with another error, %q - the failure is not permanent as stated", e, e2)
					break
				}
			}
			return data, false, e
		}
		if k == 0 && n > 0 {
			zeroReads++
			if zeroReads > 100 {
				observe("a message reader returns (0, nil) forever")
				return data, false, errors.New("harness-observed: reader returns (0, nil) forever")
			}
		}
	}
}

// RunRead executes a read program until a message-level error or until max
// messages were read.  lens are the payload lengths the harness expects (used
// only to size join reads).  extraAfter is the number of additional
// NextReader calls made after the first message-level error.
func RunRead(c *websocket.Conn, steps []RStep, max int, lens []int, extraAfter int) *RTrace {
	return RunReadP(c, steps, max, lens, extraAfter, nil)
}

// RunReadP is RunRead with progress reporting for handler-order oracles.
func RunReadP(c *websocket.Conn, steps []RStep, max int, lens []int, extraAfter int, prog *ReadProgress) *RTrace {
	curProgress = prog
	defer func() { curProgress = nil }()
	if prog != nil {
		prog.Req, prog.Bytes = -1, 0
	}
	tr := &RTrace{}
	if len(steps) == 0 {
		steps = []RStep{{Op: "readmessage", Abandon: -1}}
	}
	mi := 0 // index of next message
	var staleReader io.Reader
	for si := 0; mi < max; si++ {
		st := steps[si%len(steps)]
		if prog != nil {
			prog.Req, prog.Bytes = mi, 0
		}
		switch st.Op {
		case "readmessage":
			mt, p, err := c.ReadMessage()
			if err != nil && mt != websocket.TextMessage && mt != websocket.BinaryMessage {
				// NextReader itself failed (no message type)
				tr.Final = err
			} else if err != nil {
				tr.Msgs = append(tr.Msgs, RMsg{Op: st.Op, MT: mt, Data: p, Err: err})
			} else {
				tr.Msgs = append(tr.Msgs, RMsg{Op: st.Op, MT: mt, Data: p, Complete: true})
			}
			mi++
		case "json":
			var v interface{}
			// ReadJSON hides the message type; use NextReader-equivalent
			// semantics by calling the public ReadJSON.
			var err error
			if si%2 == 1 {
				err = websocket.ReadJSON(c, &v) // the deprecated package-level spelling
			} else {
				err = c.ReadJSON(&v)
			}
			m := RMsg{Op: st.Op, MT: -1, JSONVal: v, JSONErr: err}
			if isConnLevelErr(err) {
				tr.Final = err
			} else {
				tr.Msgs = append(tr.Msgs, m)
			}
			mi++
		case "join":
			n := st.Join
			if n < 1 {
				n = 1
			}
			if mi+n > len(lens) {
				n = len(lens) - mi
			}
			// With an empty terminator a trailing empty message cannot be
			// observed through the joined reader (a read of 0 needed bytes
			// never calls Read); leave such messages to the next step.
			for st.Term == "" && n > 0 && lens[mi+n-1] == 0 {
				n--
			}
			if n <= 0 {
				// nothing expected: behave like a reader step so that the
				// terminal error is observed
				mt, r, err := c.NextReader()
				if err != nil {
					tr.Final = err
				} else {
					d, complete, e := readBody(r, RStep{Abandon: -1})
					tr.Msgs = append(tr.Msgs, RMsg{Op: "reader", MT: mt, Data: d, Complete: complete, Err: e})
				}
				mi++
				break
			}
			need := 0
			for _, l := range lens[mi : mi+n] {
				need += l + len(st.Term)
			}
			jr := websocket.JoinMessages(c, st.Term)
			buf := make([]byte, need)
			k, err := io.ReadFull(jr, buf)
			m := RMsg{Op: st.Op, MT: -1, Data: buf[:k], Joined: n, Complete: err == nil}
			if err != nil {
				m.Err = err
				tr.Final = err
			}
			tr.Msgs = append(tr.Msgs, m)
			mi += n
		default: // reader
			mt, r, err := c.NextReader()
			if err != nil {
				tr.Final = err
				mi++
				break
			}
			if staleReader != nil {
				// a reader the application kept from an earlier message is
				// superseded: reading it must not touch the current message
				var xb [8]byte
				if k, e := staleReader.Read(xb[:]); k != 0 || e == nil {
					observe("a Read on the reader of an earlier message, made after NextReader had returned the next message, returned %d bytes (%q) and error %v - it must deliver nothing", k, xb[:k], e)
				}
			}
			staleReader = r
			var rr io.Reader = r
			var d []byte
			var complete bool
			var e error
			switch st.Wrap {
			case "bufio":
				rr = bufio.NewReaderSize(r, 16)
				d, complete, e = readBody(rr, st)
			case "readall":
				d, e = io.ReadAll(r)
				complete = e == nil
			case "copy":
				// a little through Read, the rest through io.Copy (which prefers
				// the reader's io.WriterTo if it has one)
				var head []byte
				if len(st.Sizes) > 0 && st.Sizes[0] > 0 && st.Sizes[0] < 64 {
					head = make([]byte, 0, st.Sizes[0])
					var he error
					for len(head) < cap(head) && he == nil {
						var k int
						k, he = r.Read(head[len(head):cap(head)])
						head = head[:len(head)+k]
					}
					if he == io.EOF {
						d, complete = head, true
						break
					}
					if he != nil {
						d, e = head, he
						break
					}
				}
				var buf bytes.Buffer
				_, e = io.Copy(&buf, r)
				d = append(head, buf.Bytes()...)
				complete = e == nil
			default:
				d, complete, e = readBody(rr, st)
			}
			tr.Msgs = append(tr.Msgs, RMsg{Op: "reader", MT: mt, Data: d, Complete: complete, Err: e})
			mi++
		}
		if tr.Final != nil {
			break
		}
		// An error inside a message body is also final for the connection in
		// all cases the library documents; stop issuing reads of new
		// messages only after NextReader itself fails.
	}
	if tr.Final != nil {
		for i := 0; i < extraAfter; i++ {
			if prog != nil {
				prog.Req++
				prog.Bytes = 0
			}
			if afterReadError != nil {
				afterReadError(c, i)
			}
			mt, r, err := c.NextReader()
			if err == nil {
				tr.AfterData = true
				_ = mt
				_ = r
			}
			tr.After = append(tr.After, err)
		}
	}
	return tr
}

// isConnLevelErr reports whether a ReadJSON error came from the connection
// (as opposed to the JSON decoder): close errors, read errors.
func isConnLevelErr(err error) bool {
	if err == nil {
		return false
	}
	var se *json.SyntaxError
	var ue *json.UnmarshalTypeError
	if errors.As(err, &se) || errors.As(err, &ue) || err == io.ErrUnexpectedEOF {
		return false
	}
	return true
}

// refJSON decodes payload the way ReadJSON is documented to (one value via
// encoding/json), as the reference for differential comparison.
func refJSON(payload []byte) (interface{}, error) {
	var v interface{}
	err := json.NewDecoder(bytes.NewReader(payload)).Decode(&v)
	if err == io.EOF {
		err = io.ErrUnexpectedEOF
	}
	return v, err
}

func jsonEqual(a, b interface{}) bool { return reflect.DeepEqual(a, b) }

// genReadProgram draws a read program.  allowAbandon permits partial reads;
// r is the connection's read buffer size (to bias read sizes around bufio's
// pass-through threshold).
func genReadProgram(t *rapid.T, r int, allowAbandon, allowJSON bool) []RStep {
	if r <= 0 {
		r = 4096
	}
	n := rapid.IntRange(1, 4).Draw(t, "nrsteps")
	steps := make([]RStep, n)
	for i := range steps {
		k := rapid.IntRange(0, 9).Draw(t, "rop")
		switch {
		case k < 3:
			steps[i] = RStep{Op: "readmessage", Abandon: -1}
		case k < 8:
			st := RStep{Op: "reader", Abandon: -1}
			st.Sizes = rapid.SliceOfN(rapid.OneOf(
				rapid.IntRange(1, 4), rapid.IntRange(1, 64), rapid.IntRange(0, 1),
				rapid.SampledFrom([]int{r - 1, r, r + 1, 2 * r, 125, 126, 4096, 8192, 70000}),
			), 0, 5).Draw(t, "sizes")
			for j, s := range st.Sizes {
				if s < 0 {
					st.Sizes[j] = 1
				}
			}
			allZero := len(st.Sizes) > 0
			for _, s := range st.Sizes {
				if s > 0 {
					allZero = false
				}
			}
			if allZero {
				st.Sizes = append(st.Sizes, 3)
			}
			st.Wrap = rapid.SampledFrom([]string{"", "", "", "bufio", "readall", "copy"}).Draw(t, "wrap")
			if allowAbandon && rapid.IntRange(0, 3).Draw(t, "ab") == 0 {
				st.Abandon = rapid.OneOf(rapid.Just(0), rapid.IntRange(0, 10), rapid.IntRange(0, 500)).Draw(t, "abandon")
				st.Wrap = ""
			}
			st.ExtraEOF = rapid.IntRange(0, 2).Draw(t, "xeof")
			steps[i] = st
		case k < 9:
			steps[i] = RStep{Op: "join", Abandon: -1, Join: rapid.IntRange(1, 3).Draw(t, "join"), Term: rapid.SampledFrom([]string{"", "\n", "||"}).Draw(t, "term")}
		default:
			if allowJSON {
				steps[i] = RStep{Op: "json", Abandon: -1}
			} else {
				steps[i] = RStep{Op: "readmessage", Abandon: -1}
			}
		}
	}
	return steps
}
