package props

import (
	"bytes"
	"encoding/binary"
	"errors"
	"fmt"
	"io"
	"time"

	"github.com/gorilla/websocket"
	"pgregory.net/rapid"

	"verifharness/wsref"
	"verifharness/xport"
)

// Cell is one element of the next-frame alphabet in one protocol state.
type Cell struct {
	Inside bool `json:"inside"` // a fragmented message is in progress
	Server bool `json:"server"` // role of the reader under test
	Comp   bool `json:"comp"`   // permessage-deflate negotiated
	Op     byte `json:"op"`
	Fin    bool `json:"fin"`
	R1     bool `json:"r1"`
	R2     bool `json:"r2"`
	R3     bool `json:"r3"`
	Mask   bool `json:"mask"`
	// Len: 0:0 bytes, 1:1, 2:125, 3:126 (16-bit form), 4:65536 (64-bit form), 5: 64-bit with top bit set,
	// 6: 16-bit form announcing 5 bytes, 7: 64-bit form announcing 5 bytes (extended length
	// field used for a short payload; enumerated for control opcodes, where any
	// extended length field makes the frame an oversized control frame),
	// 8: 64-bit length 2^64-n where n is the number of payload bytes the open
	// message has so far (2^64-1 when idle): added to the running message
	// length it wraps around to zero
	Len int `json:"len"`
	// Close body class, for Op 8 with Len 0 (see closeBodies).
	Close int `json:"close,omitempty"`
}

const (
	vValid = iota
	vViolation
	vUnspecified
)

var cellLens = []int{0, 1, 125, 126, 65536}

type closeClass struct {
	name    string
	body    []byte
	verdict int
}

func closeBodies() []closeClass {
	code := func(c int, reason string) []byte { return wsref.CloseBody(c, reason) }
	long := bytes.Repeat([]byte("r"), 123)
	cs := []closeClass{
		{"empty", nil, vValid},
		{"1000", code(1000, ""), vValid},
		{"1000+reason", code(1000, "bye é"), vValid},
		{"4999+123", code(4999, string(long)), vValid},
		{"code0", code(0, ""), vViolation},
		{"code999", code(999, ""), vViolation},
		{"code1004", code(1004, ""), vViolation},
		{"code1005", code(1005, ""), vViolation},
		{"code1006", code(1006, "x"), vViolation},
		{"code1015", code(1015, ""), vViolation},
		{"code1016", code(1016, ""), vViolation},
		{"code2999", code(2999, ""), vViolation},
		{"code5000", code(5000, ""), vViolation},
		{"code65535", code(65535, ""), vViolation},
		{"badutf8", append(code(1000, ""), 0xff, 0xfe), vViolation},
		{"badutf8-truncated", append(code(1001, "ok"), 0xe4, 0xb8), vViolation},
		{"1byte", []byte{0x03}, vUnspecified},
		{"code1012", code(1012, ""), vUnspecified},
		{"code1014", code(1014, ""), vUnspecified},
		{"code3000", code(3000, "app"), vValid},
		{"reason-U+FFFD", code(1000, "a\uFFFDb"), vValid},
		{"reason-U+10FFFF-NUL", code(1001, "\U0010FFFF\x00"), vValid},
		{"code1011", code(1011, ""), vValid},
		// reasons of the maximal length (125-byte close payload)
		{"123-truncated-utf8-at-the-end", append(code(1000, string(long[:121])), 0xe2, 0x82), vViolation},
		{"123-ends-in-lone-continuation-byte", append(code(1001, string(long[:122])), 0x82), vViolation},
		{"123-multibyte-at-the-end", code(1000, string(long[:120])+"\u20ac"), vValid},
		{"122-truncated-utf8", append(code(1000, string(long[:120])), 0xf0, 0x9f), vViolation},
	}
	return cs
}

// badCloseClasses lists the indices of the close bodies that are violations.
func badCloseClasses() []int {
	var out []int
	for i, cc := range closeBodies() {
		if cc.verdict == vViolation {
			out = append(out, i)
		}
	}
	return out
}

// classifyCell is the independent RFC 6455 (and RFC 7692 for RSV1) verdict
// for a frame header in a protocol state.
func classifyCell(c Cell) (verdict int, owes1002 bool) {
	viol, unspec := false, false
	isCtl := c.Op >= 8
	if c.R2 || c.R3 {
		viol = true
	}
	switch c.Op {
	case 0, 1, 2, 8, 9, 10:
	default:
		viol = true
	}
	if c.R1 {
		if !c.Comp {
			viol = true
		} else if isCtl || c.Op == 0 {
			unspec = true // RSV1 on a control or continuation frame with PMCE negotiated
		}
	}
	if isCtl {
		if !c.Fin {
			viol = true
		}
		if c.Len >= 3 {
			viol = true
		}
	} else if c.Len == 6 || c.Len == 7 {
		unspec = true // non-minimal length encoding on a data frame
	}
	if (c.Op == 1 || c.Op == 2) && c.Inside {
		viol = true
	}
	if c.Op == 0 && !c.Inside {
		viol = true
	}
	if c.Mask != c.Server {
		viol = true
	}
	if c.Len == 5 || c.Len == 8 {
		viol = true
	}
	if c.Op == 8 {
		if c.Len == 0 {
			switch closeBodies()[c.Close].verdict {
			case vViolation:
				viol = true
			case vUnspecified:
				unspec = true
			}
		} else if c.Len == 1 {
			unspec = true // one-byte close body
		}
	}
	switch {
	case viol:
		return vViolation, c.Len != 5 && c.Len != 8
	case unspec:
		return vUnspecified, false
	}
	return vValid, false
}

// headerLevelViolation: the frame's first two bytes alone show the violation
// (reserved bit, opcode, control frame not final or with an extended length,
// data/continuation opcode out of place, wrong MASK bit).
func headerLevelViolation(c Cell) bool {
	isCtl := c.Op >= 8
	switch {
	case c.R2 || c.R3, c.R1 && !c.Comp:
		return true
	case c.Op > 2 && c.Op < 8, c.Op > 10:
		return true
	case isCtl && (!c.Fin || c.Len >= 3):
		return true
	case (c.Op == 1 || c.Op == 2) && c.Inside, c.Op == 0 && !c.Inside:
		return true
	case c.Mask != c.Server:
		return true
	}
	return false
}

func fill(n int, b byte) []byte {
	p := make([]byte, n)
	for i := range p {
		p[i] = b + byte(i%7)
	}
	return p
}

// storedDeflateOfWireLen returns application data and its stored-block
// deflate image whose wire length is exactly l (l == 1 or l >= 6).
func storedDeflateOfWireLen(l int) (app, z []byte) {
	if l == 1 {
		return []byte{}, []byte{0x00}
	}
	app = fill(l-6, 'c')
	z = wsref.DeflateMessage(app, []wsref.Seg{{Kind: "stored", Len: len(app), Block: 65535}}, false, 0)
	return app, z
}

// buildCell returns the frames of prefix, the cell frame, and the trailing
// frames, plus (for valid cells) whether the construction is possible.
func buildCell(c Cell, verdict int) (prefix, cell, tail []wsref.Frame, ok bool) {
	masked := c.Server // the prefix is conformant: peers of a server mask
	mk := func(f wsref.Frame, key byte) wsref.Frame {
		f.Masked = masked
		f.Key = [4]byte{key, 0x5a, key ^ 0xff, 0x21}
		return f
	}
	prefix = append(prefix, mk(wsref.Frame{Fin: true, Opcode: wsref.OpText, Payload: []byte("hello")}, 1))
	if c.Inside {
		prefix = append(prefix, mk(wsref.Frame{Fin: false, Opcode: wsref.OpBinary, Payload: []byte("ab")}, 2))
	}
	f := wsref.Frame{Fin: c.Fin, Rsv1: c.R1, Rsv2: c.R2, Rsv3: c.R3, Opcode: c.Op, Masked: c.Mask, Key: [4]byte{0x11, 0x22, 0x33, 0x44}}
	ok = true
	var restOfDeflate []byte
	switch {
	case c.Len == 6 || c.Len == 7:
		f.LenForm = map[int]int{6: 16, 7: 64}[c.Len]
		f.Payload = []byte("short")
		if c.Op == 8 {
			f.Payload = wsref.CloseBody(1000, "abc")
		}
	case c.Len == 5:
		claim := uint64(1)<<63 | 5
		f.Claim = &claim
		f.LenForm = 64
		f.Payload = []byte("xxxxx")
	case c.Len == 8:
		claim := ^uint64(0) // 2^64-1
		if c.Inside {
			claim = ^uint64(0) - 1 // 2^64-2: the open message has delivered 2 bytes
		}
		f.Claim = &claim
		f.LenForm = 64
		f.Payload = []byte("xxxxx")
	case c.Op == 8 && c.Len == 0:
		f.Payload = closeBodies()[c.Close].body
	case c.Op == 8 && c.Len == 1:
		f.Payload = []byte{0x03}
	case c.Op == 8:
		f.Payload = wsref.CloseBody(1000, string(fill(cellLens[c.Len]-2, 'a')))
	default:
		l := cellLens[c.Len]
		f.Payload = fill(l, 'x')
		if verdict == vValid && c.R1 { // first frame of a compressed message: payload must be deflate data
			if c.Fin {
				if l == 0 {
					return nil, nil, nil, false // an empty RSV1 message body is not a deflate stream: payload-level, not framing
				}
				_, z := storedDeflateOfWireLen(l)
				f.Payload = z
			} else {
				app := fill(l+8, 'd')
				z := wsref.DeflateMessage(app, []wsref.Seg{{Kind: "stored", Len: len(app), Block: 65535}}, false, 0)
				f.Payload = z[:l]
				restOfDeflate = z[l:]
			}
		}
	}
	cell = []wsref.Frame{f}
	if verdict == vValid {
		openAfter := false
		switch c.Op {
		case 1, 2:
			openAfter = !c.Fin
		case 0:
			openAfter = !c.Fin
		default:
			openAfter = c.Inside
		}
		if c.Op != 8 && openAfter {
			p := []byte("END")
			if restOfDeflate != nil {
				p = restOfDeflate
			}
			tail = append(tail, mk(wsref.Frame{Fin: true, Opcode: wsref.OpCont, Payload: p}, 3))
		}
		if c.Op != 8 {
			tail = append(tail, mk(wsref.Frame{Fin: true, Opcode: wsref.OpText, Payload: []byte("next")}, 4))
		}
	} else {
		tail = append(tail, mk(wsref.Frame{Fin: true, Opcode: wsref.OpPing, Payload: []byte("SFX")}, 5))
		tail = append(tail, mk(wsref.Frame{Fin: true, Opcode: wsref.OpText, Payload: []byte("after")}, 6))
	}
	return prefix, cell, tail, true
}

type cellRead struct {
	mt      int
	data    []byte
	bodyErr error
	eof     bool
}

func sameErr(a, b error) bool {
	if a == nil || b == nil {
		return a == b
	}
	return a == b || a.Error() == b.Error()
}

// drainConn reads messages with NextReader (first read 2 bytes, then 4 KB
// reads) until NextReader fails, then calls NextReader extra more times.
func drainConn(conn *websocket.Conn, maxMsgs, extra int) (msgs []cellRead, final error, after []error, afterData bool) {
	for i := 0; i < maxMsgs; i++ {
		mt, r, err := conn.NextReader()
		if err != nil {
			final = err
			break
		}
		cr := cellRead{mt: mt}
		size := 2
		for {
			buf := make([]byte, size)
			n, e := r.Read(buf)
			cr.data = append(cr.data, buf[:n]...)
			if e == io.EOF {
				cr.eof = true
				break
			}
			if e != nil {
				cr.bodyErr = e
				break
			}
			size = 4096
		}
		msgs = append(msgs, cr)
	}
	if final != nil {
		for i := 0; i < extra; i++ {
			// like a retry loop: every other later read first arms a new read
			// deadline (a future one, or none)
			switch i % 4 {
			case 1:
				conn.SetReadDeadline(time.Now().Add(time.Hour))
			case 3:
				conn.SetReadDeadline(time.Time{})
			}
			_, _, err := conn.NextReader()
			if err == nil {
				afterData = true
			}
			after = append(after, err)
		}
	}
	return
}

// checkWriteBack decodes what the connection wrote and compares it with the
// pongs owed and the close frame expected.  closeCode < 0: no close frame
// expected; closeOptional: a single close frame (any 1002/none) is tolerated.
func checkWriteBack(wrote []byte, cfg ConnCfg, pongs [][]byte, closeCode int, closeOptional bool) error {
	frames, consumed, err := wsref.DecodeFrames(wrote, !cfg.Server)
	if err != nil {
		return fmt.Errorf("bytes written back are not well-formed frames: %v", err)
	}
	if consumed != len(wrote) {
		return fmt.Errorf("bytes written back end with an incomplete frame")
	}
	i := 0
	for _, p := range pongs {
		if i >= len(frames) || frames[i].Opcode != wsref.OpPong || !bytes.Equal(frames[i].Payload, p) {
			got := "nothing"
			if i < len(frames) {
				got = fmt.Sprintf("op %d payload %s", frames[i].Opcode, abbrev(frames[i].Payload))
			}
			return fmt.Errorf("pong owed for ping %s: wrote %s (frame %d of %d)", abbrev(p), got, i, len(frames))
		}
		i++
	}
	rest := frames[i:]
	switch {
	case closeCode < 0 && !closeOptional:
		if len(rest) != 0 {
			return fmt.Errorf("unexpected extra frames written back: op %d payload %s", rest[0].Opcode, abbrev(rest[0].Payload))
		}
	case len(rest) == 0:
		if !closeOptional {
			return fmt.Errorf("no close frame with status %d was sent to the peer (wrote %d frames)", closeCode, len(frames))
		}
	default:
		if len(rest) > 1 {
			return fmt.Errorf("%d frames written after the owed pongs, want exactly one close frame (second: op %d payload %s)", len(rest), rest[1].Opcode, abbrev(rest[1].Payload))
		}
		f := rest[0]
		if f.Opcode != wsref.OpClose {
			return fmt.Errorf("frame written back is op %d (payload %s), want a close frame", f.Opcode, abbrev(f.Payload))
		}
		if len(f.Payload) < 2 {
			return fmt.Errorf("close frame written back has no status code, want %d", closeCode)
		}
		if got := int(binary.BigEndian.Uint16(f.Payload)); closeCode >= 0 && got != closeCode {
			return fmt.Errorf("close frame written back has status %d, want %d", got, closeCode)
		}
		if err := wsref.CheckCloseBody(f.Payload); err != nil {
			return fmt.Errorf("close frame written back is malformed: %v", err)
		}
	}
	return nil
}

func checkC04Cell(c Cell, o *Obs) error {
	verdict, owes := classifyCell(c)
	prefix, cell, tail, ok := buildCell(c, verdict)
	if !ok {
		o.Class("skipped_payload_level")
		return nil
	}
	wire := wsref.EncodeFrames(prefix)
	wire = append(wire, wsref.EncodeFrames(cell)...)
	wire = append(wire, wsref.EncodeFrames(tail)...)

	// without negotiated compression, frames with RSV1 are also tried on a
	// connection whose handshake offered the extension and saw it declined
	cfg := ConnCfg{Server: c.Server, Compress: c.Comp, Declined: !c.Comp && c.R1 && c.Len%2 == 0}
	if cfg.Declined {
		o.Class("rsv1_after_declined_offer")
	}
	tr := xport.NewScriptConn(nil, nil)
	conn, err := NewConn(cfg, tr, nil)
	if err != nil {
		return err
	}
	tr.SetInput(wire, nil)
	h := &handlerLog{failAt: -1}
	h.install(conn)
	msgs, final, after, afterData := drainConn(conn, 6, 5)

	switch verdict {
	case vViolation:
		o.Class("violation")
		o.NonTrivial("")
		if len(msgs) < 1 || msgs[0].mt != websocket.TextMessage || !msgs[0].eof || string(msgs[0].data) != "hello" {
			return fmt.Errorf("the message completed before the violating frame was not delivered intact: %+v", msgs)
		}
		wantMsgs := 1
		if c.Inside {
			wantMsgs = 2
			if len(msgs) < 2 {
				return fmt.Errorf("the open message's first fragment was not delivered before the violating frame (final error %v)", final)
			}
			m := msgs[1]
			if m.mt != websocket.BinaryMessage || string(m.data) != "ab" {
				return fmt.Errorf("open message delivered type %d data %q, want the first fragment \"ab\" only — bytes of the violating frame or after reached the application", m.mt, m.data)
			}
			if m.eof {
				return errors.New("message cut by a violating frame was reported complete (io.EOF)")
			}
			if m.bodyErr == nil {
				return errors.New("no error at the violating frame")
			}
		}
		if len(msgs) > wantMsgs {
			return fmt.Errorf("a message was delivered from the violating frame or after it: type %d data %s", msgs[wantMsgs].mt, abbrev(msgs[wantMsgs].data))
		}
		if final == nil {
			return errors.New("read API returned no error at the violating frame")
		}
		if c.Inside && !sameErr(msgs[1].bodyErr, final) {
			return fmt.Errorf("error at the violating frame %q differs from the error of the next read %q", msgs[1].bodyErr, final)
		}
		for i, e := range after {
			if !sameErr(e, final) {
				return fmt.Errorf("later read %d returned %v, first error was %v", i, e, final)
			}
		}
		if afterData {
			return errors.New("a message was delivered after the violation")
		}
		if len(h.Events) != 0 {
			return fmt.Errorf("a handler was invoked for the violating frame or a frame after it: %+v", h.Events)
		}
		code := 1002
		if err := checkWriteBack(tr.Wrote, cfg, nil, code, !owes); err != nil {
			return err
		}
		if headerLevelViolation(c) {
			// The violation is in the first two bytes of the frame.  A peer that has
			// sent just those and waits for the answer gets it: the error is
			// reported and the 1002 close written "at that frame", without the
			// library asking the transport for the rest of a frame it refuses.
			o.Evals(1)
			tr2 := xport.NewScriptConn(nil, nil)
			conn2, err := NewConn(cfg, tr2, nil)
			if err != nil {
				return err
			}
			head := wsref.EncodeFrames(cell)[:2]
			tr2.SetInput(append(wsref.EncodeFrames(prefix), head...), nil)
			h2 := &handlerLog{failAt: -1}
			h2.install(conn2)
			_, final2, _, _ := drainConn(conn2, 6, 2)
			if final2 == nil {
				return errors.New("only the two header bytes of the violating frame have arrived: no error reported")
			}
			if tr2.Starved > 0 {
				return fmt.Errorf("only the two header bytes (%x) of the violating frame have arrived and the peer is waiting: the library asked the transport for more input %d time(s) before answering (error then reported: %v) - on a live connection it would wait for the payload of a frame it is going to refuse", head, tr2.Starved, final2)
			}
			if err := checkWriteBack(tr2.Wrote, cfg, nil, code, !owes); err != nil {
				return fmt.Errorf("only the two header bytes of the violating frame have arrived: %w", err)
			}
			o.Class("violation_header_only_peer_waits")
		}
		if headerLevelViolation(c) && c.Op < 8 && c.Len >= 2 && c.Len <= 4 {
			// A read limit smaller than the length the refused frame announces: the
			// frame is no part of any message, it is a framing violation and
			// answered as one (1002), whatever its length field says.
			o.Evals(1)
			tr4 := xport.NewScriptConn(nil, nil)
			conn4, err := NewConn(cfg, tr4, nil)
			if err != nil {
				return err
			}
			conn4.SetReadLimit(100)
			tr4.SetInput(wire, nil)
			h4 := &handlerLog{failAt: -1}
			h4.install(conn4)
			_, final4, _, _ := drainConn(conn4, 6, 2)
			if final4 == nil {
				return errors.New("with SetReadLimit(100): no error at the violating frame")
			}
			if errors.Is(final4, websocket.ErrReadLimit) {
				return fmt.Errorf("with SetReadLimit(100): the violating frame (announcing %d bytes) was answered as a read-limit breach (%v) instead of a framing violation", cellLens[c.Len], final4)
			}
			if err := checkWriteBack(tr4.Wrote, cfg, nil, code, !owes); err != nil {
				return fmt.Errorf("with SetReadLimit(100) (violating frame announces %d bytes): %w", cellLens[c.Len], err)
			}
			o.Class("violation_with_length_above_the_read_limit")
		}
		if c.Inside {
			// The open message is read with ReadJSON and its first fragment already
			// holds a complete document: that call succeeds without having met the
			// violating frame; the read that does meet it returns the error.
			o.Evals(1)
			tr3 := xport.NewScriptConn(nil, nil)
			conn3, err := NewConn(cfg, tr3, nil)
			if err != nil {
				return err
			}
			first := wsref.Frame{Fin: false, Opcode: wsref.OpText, Masked: c.Server, Key: [4]byte{7, 0x5a, 0xf8, 0x21}, Payload: []byte(`{"a":[1,2]}`)}
			w3 := wsref.EncodeFrames([]wsref.Frame{first})
			w3 = append(w3, wsref.EncodeFrames(cell)...)
			w3 = append(w3, wsref.EncodeFrames(tail)...)
			tr3.SetInput(w3, nil)
			var v interface{}
			jerr := conn3.ReadJSON(&v)
			wroteAtReturn := len(tr3.Wrote)
			if jerr == nil {
				if m, ok := v.(map[string]interface{}); !ok || fmt.Sprint(m["a"]) != "[1 2]" {
					return fmt.Errorf("ReadJSON of an open message whose first fragment is the document {\"a\":[1,2]} returned %v", v)
				}
				if wroteAtReturn > 0 {
					return fmt.Errorf("ReadJSON returned success although the violating frame behind the document had been met inside that call (%d bytes, the 1002 close, were already written when it returned): the read call that meets the violation must return the error", wroteAtReturn)
				}
			}
			_, _, nerr := conn3.NextReader()
			if nerr == nil {
				return errors.New("open message read with ReadJSON, then a violating frame: the next read returned no error")
			}
			if jerr != nil && !sameErr(jerr, nerr) {
				return fmt.Errorf("ReadJSON failed with %q, the next read with %q", jerr, nerr)
			}
			if err := checkWriteBack(tr3.Wrote, cfg, nil, code, !owes); err != nil {
				return fmt.Errorf("open message read with ReadJSON: %w", err)
			}
			o.Class("violation_behind_a_document_read_with_ReadJSON")
		}
	case vValid:
		o.Class("valid")
		o.NonTrivial("")
		// reference decode of the whole wire
		frames, consumed, err := wsref.DecodeFrames(wire, c.Server)
		if err != nil || consumed != len(wire) {
			panic(fmt.Sprintf("harness: reference decoder rejects a cell classified valid: %v %+v", err, c))
		}
		wms, err := wsref.Assemble(frames, wsref.AssembleOpts{Compression: c.Comp})
		if err != nil {
			panic(fmt.Sprintf("harness: reference assembler rejects a cell classified valid: %v %+v", err, c))
		}
		var wantData []wsref.WireMsg
		var wantCtl []wsref.WireMsg
		var openAtClose *wsref.WireMsg // message left unfinished by a (valid) close frame
		for _, m := range wms {
			if wsref.IsControl(m.Opcode) {
				wantCtl = append(wantCtl, m)
				continue
			}
			if !m.Complete {
				mm := m
				openAtClose = &mm
				continue
			}
			if m.Compressed {
				inf, err := wsref.Inflate(m.Payload, 1<<20)
				if err != nil {
					panic("harness: reference inflate failed on constructed cell: " + err.Error())
				}
				m.Payload = inf
			}
			wantData = append(wantData, m)
		}
		if openAtClose != nil {
			if len(msgs) != len(wantData)+1 {
				return fmt.Errorf("close frame inside a message: %d messages delivered, want %d complete and the cut one", len(msgs), len(wantData))
			}
			last := msgs[len(msgs)-1]
			if last.eof || last.bodyErr == nil || !bytes.Equal(last.data, openAtClose.Payload) {
				return fmt.Errorf("message cut by a close frame: complete=%v err=%v data %s, want the bytes before the close and an error", last.eof, last.bodyErr, abbrev(last.data))
			}
			msgs = msgs[:len(msgs)-1]
		}
		if len(msgs) != len(wantData) {
			return fmt.Errorf("valid frame not accepted: %d messages delivered, stream encodes %d (final error %v)", len(msgs), len(wantData), final)
		}
		for i, m := range msgs {
			if m.mt != int(wantData[i].Opcode) || !m.eof || !bytes.Equal(m.data, wantData[i].Payload) {
				return fmt.Errorf("valid frame decoded wrongly: message %d type %d complete=%v %d bytes %s (err %v), want type %d %d bytes %s", i, m.mt, m.eof, len(m.data), abbrev(m.data), m.bodyErr, wantData[i].Opcode, len(wantData[i].Payload), abbrev(wantData[i].Payload))
			}
		}
		if len(h.Events) != len(wantCtl) {
			return fmt.Errorf("valid control frame: handlers invoked %d times, want %d", len(h.Events), len(wantCtl))
		}
		for i, m := range wantCtl {
			ev := h.Events[i]
			wantP := string(m.Payload)
			if m.Opcode == wsref.OpClose {
				_, wantP = wsref.ParseCloseBody(m.Payload)
			}
			if ev.Op != m.Opcode || ev.Payload != wantP {
				return fmt.Errorf("valid control frame %d: handler saw op %d %s, want op %d %s", i, ev.Op, abbrev([]byte(ev.Payload)), m.Opcode, abbrev([]byte(wantP)))
			}
		}
		if final == nil {
			return errors.New("no error at end of stream")
		}
		if c.Op == 8 {
			code, text := wsref.ParseCloseBody(cell[0].Payload)
			var ce *websocket.CloseError
			if !errors.As(final, &ce) || ce.Code != code || ce.Text != text {
				return fmt.Errorf("valid close frame (%d,%q): reads ended with %v", code, text, final)
			}
		}
	default:
		o.Class("unspecified")
		for i, e := range after {
			if final != nil && e == nil {
				return fmt.Errorf("unspecified cell: read %d succeeded after an error %v", i, final)
			}
		}
	}
	return nil
}

// enumCells yields every cell of the alphabet assigned to this shard.
func enumCells(yield func(Cell) bool) {
	idx := 0
	n, k := shardCount(), shardIndex()
	emit := func(c Cell) bool {
		idx++
		if (idx-1)%n != k {
			return true
		}
		return yield(c)
	}
	bools := []bool{false, true}
	ncb := len(closeBodies())
	for _, inside := range bools {
		for _, server := range bools {
			for _, comp := range bools {
				for op := 0; op < 16; op++ {
					for _, fin := range bools {
						for _, r1 := range bools {
							for _, r2 := range bools {
								for _, r3 := range bools {
									for _, mask := range bools {
										for l := 0; l <= 8; l++ {
											if (l == 6 || l == 7) && op < 8 {
												continue // non-minimal lengths on data frames are not classified by the statement
											}
											c := Cell{Inside: inside, Server: server, Comp: comp, Op: byte(op), Fin: fin, R1: r1, R2: r2, R3: r3, Mask: mask, Len: l}
											if op == 8 && l == 0 {
												for cb := 0; cb < ncb; cb++ {
													c.Close = cb
													if !emit(c) {
														return
													}
												}
												continue
											}
											if !emit(c) {
												return
											}
										}
									}
								}
							}
						}
					}
				}
			}
		}
	}
}

// ------------------------------------------------------------ histories

// HistCase is a conformant prefix history, one violating frame, and a
// conformant suffix.
type HistCase struct {
	R      ConnCfg `json:"reader"`
	S      Stream  `json:"prefix"`
	Open   bool    `json:"open"` // the last message of the prefix is left unfinished
	V      Cell    `json:"violation"`
	Chunks []int   `json:"chunks,omitempty"`
	Reads  []RStep `json:"reads,omitempty"`
	// StaleWriteDeadline: the application's own write deadline has long
	// passed; the automatic 1002 close is not subject to it.
	StaleWriteDeadline bool `json:"stale_write_deadline,omitempty"`
}

func genViolation(t *rapid.T, inside, server, comp bool) Cell {
	// start from a valid frame for the state, then break it
	c := Cell{Inside: inside, Server: server, Comp: comp, Mask: server, Fin: true}
	if inside {
		c.Op = rapid.SampledFrom([]byte{0, 9, 10}).Draw(t, "vbase")
	} else {
		c.Op = rapid.SampledFrom([]byte{1, 2, 9, 10, 8}).Draw(t, "vbase")
	}
	if c.Op < 8 {
		c.Fin = rapid.Bool().Draw(t, "vfin")
		c.Len = rapid.IntRange(0, 4).Draw(t, "vlen")
	} else {
		c.Len = rapid.IntRange(0, 2).Draw(t, "vlen")
		if c.Op == 8 {
			c.Len = 0
			c.Close = rapid.SampledFrom([]int{0, 1, 2, 3}).Draw(t, "vclose")
		}
	}
	nm := rapid.IntRange(1, 2).Draw(t, "nmut")
	for i := 0; i < nm; i++ {
		switch rapid.IntRange(0, 10).Draw(t, "mut") {
		case 0:
			c.R2 = true
		case 1:
			c.R3 = true
		case 2:
			if !comp {
				c.R1 = true
			} else {
				c.R2 = true
			}
		case 3:
			c.Op = rapid.SampledFrom([]byte{3, 4, 5, 6, 7, 11, 12, 13, 14, 15}).Draw(t, "badop")
		case 4:
			if c.Op >= 8 {
				c.Fin = false
			} else {
				c.Mask = !c.Mask
			}
		case 5:
			if c.Op >= 8 {
				c.Len = rapid.SampledFrom([]int{3, 4, 6, 7}).Draw(t, "ctlbig")
				c.Close = 0
			} else {
				c.R3 = true
			}
		case 6:
			if inside {
				c.Op = rapid.SampledFrom([]byte{1, 2}).Draw(t, "dataop")
			} else {
				c.Op = 0
			}
			if c.Len > 4 {
				c.Len = 0
			}
			c.Close = 0
		case 7:
			c.Mask = !c.Mask
		case 8:
			c.Len = rapid.SampledFrom([]int{5, 8}).Draw(t, "topbitkind")
			c.Close = 0
		default:
			if !inside || true {
				c.Op = 8
				c.Fin = true
				c.Len = 0
				c.Close = rapid.SampledFrom(badCloseClasses()).Draw(t, "badclose")
			}
		}
	}
	if c.Op != 8 {
		c.Close = 0
	}
	if c.Op == 8 && c.Len != 0 {
		c.Close = 0
	}
	return c
}

func genHistCase(t *rapid.T) HistCase {
	var c HistCase
	c.R = genReaderCfg(t)
	c.S = genStream(t, SGenOpts{MaxMsgs: 4, Compression: c.R.Compress, R: c.R.ReadBuf, AllowHuge: false, NoClose: true})
	c.Open = rapid.Bool().Draw(t, "open")
	if c.Open {
		m := genSMsg(t, SGenOpts{Compression: c.R.Compress, R: c.R.ReadBuf, MaxLen: 2000})
		m.BFinal = false // a self-terminating deflate stream may legitimately be complete before the cut
		if len(m.Frags) == 0 {
			m.Frags = []int{rapid.IntRange(0, m.Data.Len).Draw(t, "openfrag")}
		}
		m.TrailEmpty = false
		c.S.Msgs = append(c.S.Msgs, m)
	}
	c.V = genViolation(t, c.Open, c.R.Server, c.R.Compress)
	c.Chunks = genChunks(t, "chunks", 2000)
	c.Reads = genReadProgram(t, c.R.ReadBuf, true, false)
	for i := range c.Reads {
		if c.Reads[i].Op == "join" {
			c.Reads[i] = RStep{Op: "readmessage", Abandon: -1}
		}
	}
	c.StaleWriteDeadline = rapid.IntRange(0, 3).Draw(t, "stale_wdl") == 0
	return c
}

func checkC04Hist(c HistCase, o *Obs) error {
	c.V.Inside, c.V.Server, c.V.Comp = c.Open, c.R.Server, c.R.Compress
	verdict, owes := classifyCell(c.V)
	if verdict != vViolation {
		o.Class("generated_frame_not_a_violation")
		return nil
	}
	model := BuildStream(c.S, c.R.Server, c.R.Compress)
	wire := model.Wire
	nComplete := len(model.Msgs)
	var openMsg *MMsg
	cut := len(wire)
	if c.Open {
		if nComplete == 0 {
			return nil
		}
		om := model.Msgs[nComplete-1]
		nComplete--
		if om.NFrames < 2 {
			// the open message needs at least one non-final frame before the cut
			return nil
		}
		cut = om.FrameEnds[om.NFrames-2]
		openMsg = &om
	}
	wire = append([]byte(nil), wire[:cut]...)
	var pings [][]byte
	var wantEvents []MCtl
	for _, mc := range model.Ctl {
		if mc.End <= cut {
			wantEvents = append(wantEvents, mc)
			if mc.Op == wsref.OpPing {
				pings = append(pings, mc.Payload)
			}
		}
	}
	_, cell, tail, ok := buildCell(c.V, vViolation)
	if !ok {
		return nil
	}
	if c.V.Len == 8 {
		// top-bit length chosen so that, added to what the open message has
		// accumulated, the running length wraps around to exactly zero
		acc := uint64(0)
		if openMsg != nil {
			for _, l := range openMsg.FrameLens[:openMsg.NFrames-1] {
				acc += uint64(l)
			}
		}
		claim := ^uint64(0) - acc + 1
		if acc == 0 {
			claim = ^uint64(0)
		}
		cell[0].Claim = &claim
	}
	wire = append(wire, wsref.EncodeFrames(cell)...)
	wire = append(wire, wsref.EncodeFrames(tail)...)

	tr := xport.NewScriptConn(nil, nil)
	conn, err := NewConn(c.R, tr, nil)
	if err != nil {
		return err
	}
	tr.SetInput(wire, c.Chunks)
	h := &handlerLog{failAt: -1}
	if c.StaleWriteDeadline {
		conn.SetWriteDeadline(time.Now().Add(-time.Hour))
		o.Class("stale_write_deadline")
	}
	h.install(conn)
	lens := make([]int, len(model.Msgs))
	for i, m := range model.Msgs {
		lens[i] = len(m.Payload)
	}
	afterReadError = func(cn *websocket.Conn, i int) {
		switch i % 4 {
		case 1:
			cn.SetReadDeadline(time.Now().Add(time.Hour))
		case 3:
			cn.SetReadDeadline(time.Time{})
		}
	}
	rereadSameErr = true
	defer func() { rereadSameErr = false }()
	readStart := time.Now()
	rt := RunRead(conn, c.Reads, nComplete+3, lens, 5)
	afterReadError = nil
	if err := checkReplyDeadlines(tr.Log, 0, readStart); err != nil {
		return err
	}

	if len(rt.Msgs) < nComplete {
		return fmt.Errorf("%d messages were completed before the violating frame, only %d delivered (final error %v)", nComplete, len(rt.Msgs), rt.Final)
	}
	completeTrace := &RTrace{Msgs: rt.Msgs[:nComplete]}
	if _, err := compareRead(model.Msgs[:nComplete], completeTrace, c.Reads); err != nil {
		return fmt.Errorf("message completed before the violation not delivered intact: %v", err)
	}
	extra := rt.Msgs[nComplete:]
	if openMsg != nil {
		if len(extra) > 1 {
			return fmt.Errorf("a message was delivered after the violating frame: type %d %s", extra[1].MT, abbrev(extra[1].Data))
		}
		if len(extra) == 1 {
			m := extra[0]
			delivered := 0
			for _, l := range openMsg.FrameLens[:openMsg.NFrames-1] {
				delivered += l
			}
			if m.MT != openMsg.Type {
				return fmt.Errorf("open message delivered with type %d, want %d", m.MT, openMsg.Type)
			}
			if m.Complete {
				return errors.New("message cut by a violating frame was reported complete")
			}
			if openMsg.Compressed {
				// what the wire bytes before the violating frame inflate to is not
				// known to the model: the data must be a prefix of the payload
				delivered = len(openMsg.Payload)
			}
			if len(m.Data) > delivered || !bytes.Equal(m.Data, openMsg.Payload[:len(m.Data)]) {
				return fmt.Errorf("open message: %d bytes delivered (%s) but only %d bytes preceded the violating frame — bytes of the violating frame or after it reached the application", len(m.Data), abbrev(m.Data), delivered)
			}
			if m.Err != nil && (m.Err == io.EOF || !sameErr(m.Err, rt.Final)) {
				return fmt.Errorf("error inside the cut message %q differs from the error of the following read %q", m.Err, rt.Final)
			}
		}
	} else if len(extra) > 0 {
		return fmt.Errorf("a message was delivered from the violating frame or after it: type %d %s", extra[0].MT, abbrev(extra[0].Data))
	}
	if rt.Final == nil {
		return errors.New("read API returned no error at the violating frame")
	}
	for i, e := range rt.After {
		if !sameErr(e, rt.Final) {
			return fmt.Errorf("later read %d returned %v, first error was %v", i, e, rt.Final)
		}
	}
	if rt.AfterData {
		return errors.New("a message was delivered after the violation")
	}
	if len(h.Events) != len(wantEvents) {
		return fmt.Errorf("%d control frames precede the violating frame, handlers were invoked %d times (a handler ran for the violating frame or after it, or missed one before it)", len(wantEvents), len(h.Events))
	}
	for i, mc := range wantEvents {
		if h.Events[i].Op != mc.Op || h.Events[i].Payload != string(mc.Payload) {
			return fmt.Errorf("control frame %d before the violation: handler saw op %d %s", i, h.Events[i].Op, abbrev([]byte(h.Events[i].Payload)))
		}
	}
	if err := checkWriteBack(tr.Wrote, c.R, pings, 1002, !owes); err != nil {
		return err
	}
	o.Class(fmt.Sprintf("viol_op%d", c.V.Op))
	o.ClassIf(c.V.Len == 5, "viol_topbit")
	o.ClassIf(c.Open, "inside_message")
	o.ClassIf(openMsg != nil && openMsg.Compressed, "inside_compressed_message")
	o.ClassIf(nComplete > 0, "completed_before")
	if nComplete > 0 || c.Open {
		o.NonTrivial("")
	}
	return nil
}
