package props

import "testing"

func TestC01(t *testing.T) { RunProp(t, "C01", "roundtrip", genWireCase, checkC01) }
func TestC02(t *testing.T) { RunProp(t, "C02", "wire", genWireCase, checkC02) }
