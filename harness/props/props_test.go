package props

import (
	"fmt"
	"os"
	"testing"
)

func TestC01(t *testing.T) { RunProp(t, "C01", "roundtrip", genWireCase, checkC01) }
func TestC02(t *testing.T) { RunProp(t, "C02", "wire", genWireCase, checkC02) }

// TestKnown re-confirms the known findings listed for $VERIF_PROP and prints
// one KNOWN-FINDING line per finding that still reproduces.  It never fails.
func TestKnown(t *testing.T) {
	prop := os.Getenv("VERIF_PROP")
	for _, e := range KnownEntries() {
		if e.Prop != prop {
			continue
		}
		probe := knownProbes[e.Sig]
		if probe == nil {
			fmt.Printf("KNOWN-FINDING: property=%s sig=%s %s (no probe registered)\n", e.Prop, e.Sig, e.Text)
			continue
		}
		if ok, detail := probe(); ok {
			fmt.Printf("KNOWN-FINDING: property=%s sig=%s %s [probe: %s]\n", e.Prop, e.Sig, e.Text, detail)
		} else {
			fmt.Printf("NOTE: known finding property=%s sig=%s no longer reproduces (%s)\n", e.Prop, e.Sig, detail)
		}
	}
}

func TestC03(t *testing.T) { RunProp(t, "C03", "decode", genReadCase, checkC03) }

func TestC04Cells(t *testing.T) { RunEnum(t, "C04", "alphabet", enumCells, checkC04Cell) }
func TestC04Hist(t *testing.T)  { RunProp(t, "C04", "history", genHistCase, checkC04Hist) }

func TestC05(t *testing.T) { RunProp(t, "C05", "faults", genFaultCase, checkC05) }

func TestC06(t *testing.T) { RunProp(t, "C06", "limit", genLimitCase, checkC06) }

func TestC08(t *testing.T) { RunProp(t, "C08", "control", genCtlCase, checkC08) }
