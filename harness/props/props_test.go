package props

import (
	"encoding/json"
	"fmt"
	"os"
	"path/filepath"
	"runtime"
	"testing"
	"verifharness/xport"

	"pgregory.net/rapid"

	"verifharness/wsref"
)

func TestC01(t *testing.T) { RunProp(t, "C01", "roundtrip", genWireCase, checkC01) }
func TestC02(t *testing.T) { RunProp(t, "C02", "wire", genWireCase, checkC02) }

// TestKnown re-confirms the known findings listed for $VERIF_PROP and prints
// one KNOWN-FINDING line per finding that still reproduces.  It never fails.
func TestKnown(t *testing.T) {
	prop := os.Getenv("VERIF_PROP")
	for _, e := range KnownEntries() {
		if e.Prop != prop {
			continue
		}
		probe := knownProbes[e.Sig]
		if probe == nil {
			fmt.Printf("KNOWN-FINDING: property=%s sig=%s %s (no probe registered)\n", e.Prop, e.Sig, e.Text)
			continue
		}
		if ok, detail := probe(); ok {
			fmt.Printf("KNOWN-FINDING: property=%s sig=%s %s [probe: %s]\n", e.Prop, e.Sig, e.Text, detail)
		} else {
			fmt.Printf("NOTE: known finding property=%s sig=%s no longer reproduces (%s)\n", e.Prop, e.Sig, detail)
		}
	}
}

func TestC03(t *testing.T) { RunProp(t, "C03", "decode", genReadCase, checkC03) }

func TestC04Cells(t *testing.T) { RunEnum(t, "C04", "alphabet", enumCells, checkC04Cell) }
func TestC04Hist(t *testing.T)  { RunProp(t, "C04", "history", genHistCase, checkC04Hist) }

func TestC05(t *testing.T) { RunProp(t, "C05", "faults", genFaultCase, checkC05) }

func TestC06(t *testing.T) { RunProp(t, "C06", "limit", genLimitCase, checkC06) }

func TestC08(t *testing.T) { RunProp(t, "C08", "control", genCtlCase, checkC08) }

func TestC07(t *testing.T) { RunProp(t, "C07", "untrusted", genFuzzCase, checkC07) }

// Native fuzz targets for C07 (thorough tier).  Every failing input is also
// written as a JSON FuzzCase so that it replays through TestC07.
func fuzzC07(f *testing.F, entry string, seeds [][]byte) {
	for _, s := range seeds {
		f.Add(s)
	}
	if dir := os.Getenv("VERIF_CORPUS"); dir != "" {
		files, _ := filepath.Glob(filepath.Join(dir, "C07-"+entry, "*"))
		for _, p := range files {
			if b, err := os.ReadFile(p); err == nil {
				f.Add(b)
			}
		}
	}
	f.Fuzz(func(t *testing.T, data []byte) {
		if len(data) > 1<<16 {
			return
		}
		c := fuzzCaseFromBytes(entry, data)
		watchdogCtx.id, watchdogCtx.part, watchdogCtx.test = "C07", "fuzz-"+entry, "TestC07"
		if err := safeCheck(checkC07, c, &Obs{}); err != nil {
			js, _ := json.Marshal(c)
			writeFail("C07", "fuzz-"+entry, "TestC07", js, err)
			t.Fatal(err)
		}
	})
}

func frameSeeds() [][]byte {
	var out [][]byte
	for opt := byte(0); opt < 4; opt++ {
		s := Stream{Msgs: []SMsg{{Op: 1, Data: Payload{Len: 5, Kind: "text"}, Frags: []int{2}, Ctl: []SCtl{{At: 1, Op: 9, Data: Payload{Len: 3, Kind: "counter"}}}, Compressed: opt&2 != 0, Segs: []wsref.Seg{{Kind: "fixed", Len: 5}}}}, Close: &SClose{Code: 1000, Reason: "bye"}}
		m := BuildStream(s, opt&1 != 0, opt&2 != 0)
		out = append(out, append([]byte{opt}, m.Wire...))
	}
	out = append(out, []byte{0, 0x82, 0x7f, 0x7f, 0xff, 0xff, 0xff, 0xff, 0xff, 0xff, 0xff}, []byte{0, 0x82, 0x7f, 0x80, 0, 0, 0, 0, 0, 0, 0}, []byte{1, 0x89, 0xfe, 0, 0x7e}, []byte{2, 0xc1, 0x01, 0x00})
	return out
}

func replySeeds() [][]byte {
	var out [][]byte
	for _, s := range replyTemplates {
		out = append(out, append([]byte{0}, s...), append([]byte{2}, s...))
	}
	return out
}

func headerSeeds() [][]byte {
	var out [][]byte
	for i := range fuzzHeaderNames {
		for _, v := range headerValuePool {
			out = append(out, append([]byte{byte(i << 4)}, v...))
		}
	}
	return out
}

func FuzzC07Frames(f *testing.F)     { fuzzC07(f, "frames", frameSeeds()) }
func FuzzC07DialReply(f *testing.F)  { fuzzC07(f, "dialreply", replySeeds()) }
func FuzzC07ProxyReply(f *testing.F) { fuzzC07(f, "proxyreply", replySeeds()) }
func FuzzC07Headers(f *testing.F)    { fuzzC07(f, "headers", headerSeeds()) }

func TestC10(t *testing.T) { RunProp(t, "C10", "writefaults", genWFaultCase, checkC10) }

func TestC09(t *testing.T) { RunProp(t, "C09", "afterclose", genCloseCase, checkC09) }

func TestC20(t *testing.T) {
	defer runtime.GOMAXPROCS(runtime.GOMAXPROCS(1)) // sequential hand-over: one P keeps sync.Pool behaviour reproducible
	RunProp(t, "C20", "pool", genPoolCase, checkC20)
}

func TestC19(t *testing.T) {
	RunProp(t, "C19", "prepared", func(rt *rapid.T) PrepCase { return genPrepCase(rt, false) }, checkC19)
}

// TestC19Conc runs in the -race binary: one PreparedMessage sent from many goroutines.
func TestC19Conc(t *testing.T) {
	RunProp(t, "C19", "prepared-concurrent", func(rt *rapid.T) PrepCase { return genPrepCase(rt, true) }, checkC19)
}

func TestC12(t *testing.T) { RunProp(t, "C12", "serverhandshake", genServerHSCase, checkC12) }

func TestC13(t *testing.T) { RunProp(t, "C13", "origin", genOriginCase, checkC13) }

func TestC14(t *testing.T) { RunProp(t, "C14", "clienthandshake", genClientHSCase, checkC14) }

func TestC15(t *testing.T) { RunProp(t, "C15", "compression-agreement", genCompCase, checkC15) }

func TestC17(t *testing.T) { RunProp(t, "C17", "boundary", genBoundaryCase, checkC17) }

func TestC18Cells(t *testing.T) { RunEnum(t, "C18", "matrix", enumDialCells, checkC18) }
func TestC18Rand(t *testing.T)  { RunProp(t, "C18", "hosts-and-replies", genDialCell, checkC18) }

func TestC16(t *testing.T) { RunProp(t, "C16", "handshake-faults", genHSPath, checkC16) }

func TestC03Sweep(t *testing.T) { RunEnum(t, "C03", "mask-carry-sweep", enumMaskSweep, checkMaskSweep) }

// TestC20Conc runs in the -race binary: the connections sharing the pool run in parallel goroutines.
func TestC20Conc(t *testing.T) {
	RunProp(t, "C20", "pool-concurrent", func(rt *rapid.T) PoolCase { c := genPoolCase(rt); c.Conc = true; return c }, checkC20)
}

// fuzzRapid exposes a rapid property to the native coverage-guided fuzzer
// (thorough tier): the fuzzer mutates rapid's bit stream, so inputs stay
// structurally valid cases.  Failing cases are written as JSON like everywhere.
func fuzzRapid[C any](f *testing.F, id, part, test string, gen func(*rapid.T) C, check func(C, *Obs) error) {
	f.Fuzz(rapid.MakeFuzz(func(t *rapid.T) {
		c := gen(t)
		js, _ := json.Marshal(c)
		watchdogCtx.id, watchdogCtx.part, watchdogCtx.test, watchdogCtx.caseJSON = id, part, test, js
		if err := safeCheck(check, c, &Obs{}); err != nil {
			writeFail(id, part, test, js, err)
			t.Fatalf("%v", err)
		}
	}))
}

func FuzzC01(f *testing.F) { fuzzRapid(f, "C01", "fuzz-roundtrip", "TestC01", genWireCase, checkC01) }
func FuzzC02(f *testing.F) { fuzzRapid(f, "C02", "fuzz-wire", "TestC02", genWireCase, checkC02) }
func FuzzC03(f *testing.F) { fuzzRapid(f, "C03", "fuzz-decode", "TestC03", genReadCase, checkC03) }
func FuzzC04Hist(f *testing.F) {
	fuzzRapid(f, "C04", "fuzz-history", "TestC04Hist", genHistCase, checkC04Hist)
}
func FuzzC06(f *testing.F) { fuzzRapid(f, "C06", "fuzz-limit", "TestC06", genLimitCase, checkC06) }
func FuzzC08(f *testing.F) { fuzzRapid(f, "C08", "fuzz-control", "TestC08", genCtlCase, checkC08) }
func FuzzC12(f *testing.F) {
	fuzzRapid(f, "C12", "fuzz-serverhandshake", "TestC12", genServerHSCase, checkC12)
}
func FuzzC13(f *testing.F) { fuzzRapid(f, "C13", "fuzz-origin", "TestC13", genOriginCase, checkC13) }
func FuzzC14(f *testing.F) {
	fuzzRapid(f, "C14", "fuzz-clienthandshake", "TestC14", genClientHSCase, checkC14)
}

// C11's last clause (sharing one PreparedMessage / one write buffer pool among
// many connections is race-free) reuses the concurrent legs of C19 and C20.
func TestC11SharedPrepared(t *testing.T) {
	RunProp(t, "C11", "shared-prepared-message", func(rt *rapid.T) PrepCase { return genPrepCase(rt, true) }, checkC19)
}
func TestC11SharedPool(t *testing.T) {
	RunProp(t, "C11", "shared-pool", func(rt *rapid.T) PoolCase { c := genPoolCase(rt); c.Conc = true; return c }, checkC20)
}

func TestC03Multi(t *testing.T) {
	RunProp(t, "C03", "interleaved-readers", genMultiReadCase, checkC03Multi)
}
func TestC01Multi(t *testing.T) {
	RunProp(t, "C01", "interleaved-readers", genMultiReadCase, checkC03Multi)
}

// C02's clause on PreparedMessages (frames built once per variant and reused on
// every connection they fit) is judged by the C19 machinery on shared messages.
func TestC02Prepared(t *testing.T) {
	RunProp(t, "C02", "prepared-shared", func(rt *rapid.T) PrepCase { return genPrepCase(rt, false) }, checkC19)
}

// C02 over several connections of one process whose write programs are
// interleaved call by call and may be cut by transport faults (the flate
// writers come from process-wide pools): every connection's wire must still
// hold exactly its own well-formed messages.  Same scenario as C20.
func TestC02Multi(t *testing.T) {
	// one P: the process-wide sync.Pools of flate writers then behave the same
	// way in every run (no per-P caches to miss)
	defer runtime.GOMAXPROCS(runtime.GOMAXPROCS(1))
	RunProp(t, "C02", "interleaved-writers", func(rt *rapid.T) PoolCase {
		c := genPoolCase(rt)
		if rapid.Bool().Draw(rt, "flate_sharing_shape") && len(c.Conns) >= 3 {
			// connection 0 fails in the middle of a compressed message and runs
			// to its end first; the others then write compressed messages with
			// their writers open at the same time
			for i := range c.Conns {
				c.Conns[i].W.Compress = true
				c.Conns[i].CloseAt = 0
				if i > 0 {
					c.Conns[i].Fault = nil
				}
			}
			c.Conns[0].Fault = &xport.WriteFault{K: rapid.IntRange(0, 5).Draw(rt, "fault_k0"), Kind: rapid.SampledFrom(wfaultKinds).Draw(rt, "fault_kind0")}
			c.Order = append(make([]int, 40), c.Order...)
		}
		return c
	}, checkC20)
}

// C17 against a real net/http server on the loopback interface.
func TestC17Real(t *testing.T) { RunProp(t, "C17", "real-net-http-server", genRealCase, checkC17Real) }
