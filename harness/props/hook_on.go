//go:build verif

package props

import (
	"io"

	"github.com/gorilla/websocket"
)

// HookAvailable reports whether the library was built with the verif hooks.
const HookAvailable = true

func swapMaskRand(r io.Reader) io.Reader { return websocket.VerifSwapMaskRand(r) }
