package props

import (
	"bytes"
	"crypto/rand"
	"fmt"
	"io"
	"sync"

	"github.com/gorilla/websocket"

	"verifharness/wsref"
	"verifharness/xport"
)

// keyStream is the mask key source the harness installs through the verif
// hook: a deterministic, non-repeating byte stream that records what it handed
// out.
type keyStream struct {
	mu    sync.Mutex
	ctr   uint32
	out   []byte // everything handed out
	reads []int  // sizes of the Read calls
}

func (k *keyStream) Read(p []byte) (int, error) {
	k.mu.Lock()
	defer k.mu.Unlock()
	for i := range p {
		// bijective mix of a counter: every aligned 4-byte group is unique
		// and the bytes look arbitrary.
		idx := uint32(len(k.out))
		g := (idx/4 + 0x9e3779b9) * 2654435761
		g ^= g >> 15
		p[i] = byte(g >> (8 * (idx % 4)))
		k.out = append(k.out, p[i])
	}
	k.reads = append(k.reads, len(p))
	return len(p), nil
}

var maskHookMu sync.Mutex

// withKeyStream runs f with the harness key source installed (when the hook
// is available) and returns the source and whether the replaced default was
// crypto/rand.Reader.
func withKeyStream(f func()) (ks *keyStream, defaultWasCrypto bool, hooked bool) {
	if !HookAvailable {
		f()
		return nil, false, false
	}
	maskHookMu.Lock()
	defer maskHookMu.Unlock()
	ks = &keyStream{}
	old := swapMaskRand(ks)
	defer swapMaskRand(old)
	f()
	return ks, old == io.Reader(rand.Reader), true
}

// decodeWire strictly decodes everything a connection wrote and matches it to
// the API-level messages.  It returns the frames and wire messages.
func decodeWire(wrote []byte, cfg ConnCfg, allowTruncatedTail bool) ([]wsref.DFrame, []wsref.WireMsg, error) {
	frames, consumed, err := wsref.DecodeFrames(wrote, !cfg.Server)
	if err != nil {
		return frames, nil, fmt.Errorf("wire stream is not well-formed: %v", err)
	}
	if consumed != len(wrote) && !allowTruncatedTail {
		return frames, nil, fmt.Errorf("wire stream ends with an incomplete frame (%d stray bytes at offset %d: %s)", len(wrote)-consumed, consumed, abbrev(wrote[consumed:]))
	}
	msgs, err := wsref.Assemble(frames, wsref.AssembleOpts{Compression: cfg.Compress, CheckCloseBody: false})
	if err != nil {
		return frames, msgs, fmt.Errorf("wire stream violates message framing: %v", err)
	}
	return frames, msgs, nil
}

// matchWire checks the one-to-one, in-order correspondence between the wire
// messages and the API-level messages, including payload fidelity after
// unmasking/inflation, RSV1 discipline and positions of control frames.
func matchWire(msgs []wsref.WireMsg, sent []Sent) error {
	var wd, wc []int
	for i, m := range msgs {
		if wsref.IsControl(m.Opcode) {
			wc = append(wc, i)
		} else {
			if !m.Complete {
				return fmt.Errorf("wire ends inside data message (first frame #%d): final frame missing", m.FirstFrame)
			}
			wd = append(wd, i)
		}
	}
	var sd, sc []int
	for i, s := range sent {
		if s.Bad || (s.OptionalEmpty && !s.OnWire) {
			continue
		}
		if s.Control {
			sc = append(sc, i)
		} else {
			sd = append(sd, i)
		}
	}
	if len(wd) != len(sd) {
		return fmt.Errorf("%d data messages on the wire, %d sent through the API", len(wd), len(sd))
	}
	if len(wc) != len(sc) {
		return fmt.Errorf("%d control frames on the wire, %d sent through the API", len(wc), len(sc))
	}
	pos := map[int]int{} // sent index -> wire msg index
	for k := range sd {
		s, m := sent[sd[k]], msgs[wd[k]]
		pos[sd[k]] = wd[k]
		if int(m.Opcode) != s.MT {
			return fmt.Errorf("data message %d: opcode %d on the wire, type %d sent", k, m.Opcode, s.MT)
		}
		payload := m.Payload
		if m.Compressed {
			if !s.MayCompress {
				return fmt.Errorf("data message %d carries RSV1 although compression was not negotiated+enabled when it was started", k)
			}
			inf, err := wsref.Inflate(m.Payload, len(s.Payload)+1024)
			if err != nil {
				return fmt.Errorf("data message %d: RSV1 payload does not inflate per RFC 7692: %v", k, err)
			}
			payload = inf
		}
		if !bytes.Equal(payload, s.Payload) {
			return fmt.Errorf("data message %d (compressed=%v): wire payload differs from what the application wrote at byte %d (wire %d bytes %s, app %d bytes %s)", k, m.Compressed, firstDiff(payload, s.Payload), len(payload), abbrev(payload), len(s.Payload), abbrev(s.Payload))
		}
	}
	for k := range sc {
		s, m := sent[sc[k]], msgs[wc[k]]
		pos[sc[k]] = wc[k]
		if int(m.Opcode) != s.MT {
			return fmt.Errorf("control message %d: opcode %d on the wire, type %d sent", k, m.Opcode, s.MT)
		}
		if !bytes.Equal(m.Payload, s.Payload) {
			return fmt.Errorf("control message %d: wire payload %s differs from sent %s", k, abbrev(m.Payload), abbrev(s.Payload))
		}
	}
	// relative placement of control frames and data messages
	for _, ci := range sc {
		c := sent[ci]
		cf := msgs[pos[ci]].FirstFrame
		for _, di := range sd {
			d := sent[di]
			dm := msgs[pos[di]]
			switch {
			case d.EndEv >= 0 && d.EndEv <= c.StartEv: // (== when c's own call closed d implicitly)
				if !(dm.LastFrame < cf) {
					return fmt.Errorf("control message sent after data message (step %d) completed appears before its last frame on the wire", d.Step)
				}
			case c.EndEv < d.StartEv:
				if !(cf < dm.FirstFrame) {
					return fmt.Errorf("control message sent before data message (step %d) started appears after its first frame on the wire", d.Step)
				}
			case d.StartEv < c.StartEv && (d.EndEv < 0 || c.EndEv <= d.EndEv):
				if !(cf < dm.LastFrame) {
					return fmt.Errorf("control message sent while data message (step %d) was open appears after its final frame", d.Step)
				}
			}
		}
	}
	return nil
}

func checkC02(c WireCase, o *Obs) error {
	var nEx int
	c.Steps, nEx = steerWriteProgram("C02", c.W, c.Steps)
	o.Excluded(nEx)
	var tw *WTrace
	var wrote []byte
	var ferr error
	ks, defCrypto, hooked := withKeyStream(func() {
		pool := &simplePool{}
		trW := xport.NewScriptConn(nil, nil)
		cw, err := NewConn(c.W, trW, pool)
		if err != nil {
			ferr = err
			return
		}
		tw = RunWrite(cw, trW, c.Steps, c.W.Compress)
		wrote = append([]byte(nil), trW.Wrote...)
	})
	if ferr != nil {
		return ferr
	}
	if err := checkCalls(tw, c.Steps); err != nil {
		return err
	}
	frames, msgs, err := decodeWire(wrote, c.W, false)
	if err != nil {
		return err
	}
	if err := matchWire(msgs, tw.Sent); err != nil {
		return err
	}
	// close bodies the harness sends are valid, so the close frame must be too
	for _, m := range msgs {
		if m.Opcode == wsref.OpClose {
			if err := wsref.CheckCloseBody(m.Payload); err != nil {
				return fmt.Errorf("close frame body malformed on the wire: %v", err)
			}
		}
	}
	// mask keys
	if !c.W.Server && len(frames) > 0 {
		if hooked {
			if !defCrypto {
				return fmt.Errorf("the default mask key source is not crypto/rand.Reader")
			}
			if err := checkKeysFromStream(frames, ks); err != nil {
				return err
			}
			o.Class("keys_checked_via_hook")
		} else {
			same := 0
			for i := 1; i < len(frames); i++ {
				if frames[i].Key == frames[i-1].Key {
					same++
				}
			}
			if same > 1 {
				return fmt.Errorf("%d pairs of consecutive client frames share a mask key (hook unavailable: statistical check)", same)
			}
			o.Class("keys_checked_statistically")
		}
	}
	for _, f := range frames {
		cls := "frame_7bit"
		if f.HdrLen-boolInt(f.Masked)*4 == 4 {
			cls = "frame_16bit"
		} else if f.HdrLen-boolInt(f.Masked)*4 == 10 {
			cls = "frame_64bit"
		}
		if f.Masked {
			cls += "_masked"
		} else {
			cls += "_unmasked"
		}
		o.Class(cls)
		o.ClassIf(f.Rsv1, "frame_rsv1")
		o.ClassIf(f.Opcode == wsref.OpCont, "frame_continuation")
	}
	data, ctl := expectedMsgs(tw)
	classifyWire(c, tw, data, ctl, o)
	return nil
}

func boolInt(b bool) int {
	if b {
		return 1
	}
	return 0
}

// checkKeysFromStream requires every mask key on the wire to be a distinct
// 4-byte window of the bytes the connection drew from the key source, in wire
// order, each window used once.
func checkKeysFromStream(frames []wsref.DFrame, ks *keyStream) error {
	h := ks.out
	used := make([]bool, len(h))
	for i, f := range frames {
		found := -1
		for j := 0; j+4 <= len(h); j++ {
			if bytes.Equal(h[j:j+4], f.Key[:]) && !used[j] && !used[j+1] && !used[j+2] && !used[j+3] {
				found = j
				break
			}
		}
		if found < 0 {
			return fmt.Errorf("frame %d (offset %d) is masked with key %x, which is not a fresh 4-byte draw from the connection's mask key source (source handed out %d bytes in %d reads)", i, f.Off, f.Key, len(h), len(ks.reads))
		}
		for j := found; j < found+4; j++ {
			used[j] = true
		}
	}
	return nil
}

var _ = websocket.TextMessage
