package props

import (
	"bufio"
	"errors"
	"fmt"
	"time"

	"github.com/gorilla/websocket"
	"pgregory.net/rapid"

	"verifharness/xport"
)

// BoundaryCase glues a frame stream to the handshake and tries every split.
type BoundaryCase struct {
	R     ConnCfg `json:"reader"`
	S     Stream  `json:"stream"`
	Reads []RStep `json:"reads,omitempty"`
	// Rest is the chunking of what follows the split point.
	Rest []int `json:"rest,omitempty"`
	// OnlyK restricts the enumeration (replay); -1 = all splits.
	OnlyK int `json:"only_k"`
	// EOFWith: the transport returns its last bytes together with io.EOF.
	EOFWith bool `json:"eof_with,omitempty"`
	// S2 (client): a second connection is dialed - with this stream glued to
	// its 101 - after the first Dial returned and before the first connection
	// is read; each must deliver its own messages.
	S2 *Stream `json:"stream2,omitempty"`
	// Traced (client): Dial runs through DialContext with an
	// httptrace.ClientTrace in the context.
	Traced bool `json:"traced,omitempty"`
	// After: what the application or the transport does between the handshake
	// and the first read. "write_dead": every transport write fails from then
	// on with a plain (non-net) error, so no pong and no close reply can be
	// sent; "close_first": the application sends its own close frame before it
	// reads what came with the handshake; "tight_limit": it sets a read limit of
	// exactly the largest message's wire size. None is a reason to lose (part
	// of) a message that has already arrived.
	After string `json:"after,omitempty"`
}

func genBoundaryCase(t *rapid.T) BoundaryCase {
	var c BoundaryCase
	c.R.Server = rapid.Bool().Draw(t, "server")
	c.R.Compress = rapid.Bool().Draw(t, "compress")
	if c.R.Server {
		c.R.ReadBuf = rapid.SampledFrom([]int{0, 0, 1, 64, 255, 256, 257, 1024}).Draw(t, "rbuf")
		c.R.HijackR = rapid.SampledFrom([]int{16, 64, 128, 255, 256, 257, 512, 4096, 8192}).Draw(t, "hijack_r")
	} else {
		c.R.ReadBuf = rapid.SampledFrom([]int{0, 1, 64, 125, 126, 300, 4096, 4097, 8192, 65536}).Draw(t, "rbuf")
	}
	maxLen := rapid.SampledFrom([]int{20, 100, 400, 1500}).Draw(t, "maxlen")
	c.S = genStream(t, SGenOpts{MaxMsgs: 3, Compression: c.R.Compress, R: c.R.ReadBuf, MaxLen: maxLen})
	c.Reads = genReadProgram(t, c.R.ReadBuf, true, false) // incl. messages the application abandons part-way
	for i := range c.Reads {
		if c.Reads[i].Op == "join" {
			c.Reads[i] = RStep{Op: "readmessage", Abandon: -1}
		}
	}
	if !c.R.Server && rapid.Bool().Draw(t, "second_dial") {
		s2 := genStream(t, SGenOpts{MaxMsgs: 2, Compression: c.R.Compress, R: c.R.ReadBuf, MaxLen: maxLen})
		c.S2 = &s2
	}
	if !c.R.Server {
		c.Traced = rapid.IntRange(0, 2).Draw(t, "traced") == 0
	}
	c.Rest = genChunks(t, "rest", 300)
	c.EOFWith = rapid.Bool().Draw(t, "eof_with_last_bytes")
	c.OnlyK = -1
	c.After = rapid.SampledFrom([]string{"", "", "", "write_dead", "close_first", "tight_limit"}).Draw(t, "after")
	return c
}

func checkC17(c BoundaryCase, o *Obs) error {
	model := BuildStream(c.S, c.R.Server, c.R.Compress)
	if len(model.Msgs) == 0 && model.Close == nil {
		return nil
	}
	lens := make([]int, len(model.Msgs))
	for i, m := range model.Msgs {
		lens[i] = len(m.Payload)
	}
	var curTr *xport.ScriptConn
	judge := func(conn *websocket.Conn, k int, path string) error {
		// the application sets no read deadline: the peer may take its time over
		// whatever follows the handshake, and no deadline of the handshake phase
		// (or of a reply the library writes) may cut a read short
		curTr.SlowPeer = true
		switch c.After {
		case "write_dead":
			curTr.SetWriteFault(&xport.WriteFault{K: 0, Kind: xport.FaultError})
			o.Class("writes_fail_after_handshake")
		case "close_first":
			if err := conn.WriteControl(websocket.CloseMessage, websocket.FormatCloseMessage(1000, "bye"), time.Now().Add(time.Minute)); err != nil {
				return fmt.Errorf("split %d (%s): WriteControl(close) right after the handshake: %v", k, path, err)
			}
			o.Class("own_close_sent_before_first_read")
		case "tight_limit":
			// a read limit of exactly the largest message's size on the wire (for a
			// compressed message that is less than what it inflates to)
			limit := 1
			for _, m := range model.Msgs {
				if m.WireLen > limit {
					limit = m.WireLen
				}
			}
			conn.SetReadLimit(int64(limit))
			o.Class("tight_read_limit_set_after_handshake")
		}
		if c.After != "" {
			path += ", " + c.After
		}
		rt := RunRead(conn, c.Reads, len(model.Msgs)+1, lens, 1)
		n, err := compareRead(model.Msgs, rt, c.Reads)
		if err != nil {
			return fmt.Errorf("split %d (%s): %v", k, path, err)
		}
		if curTr.RDLExpired > 0 {
			return fmt.Errorf("split %d (%s): a read deadline was still armed (or was armed by the library) after the handshake although the application set none: with a peer that pauses, the read times out (%d of %d messages delivered, reader stopped with %v)", k, path, n, len(model.Msgs), rt.Final)
		}
		if n != len(model.Msgs) {
			return fmt.Errorf("split %d (%s): only %d of %d messages glued to the handshake were delivered; reader stopped with %v", k, path, n, len(model.Msgs), rt.Final)
		}
		if rt.Final == nil || rt.AfterData {
			return fmt.Errorf("split %d (%s): stream end not reported cleanly", k, path)
		}
		if model.Close != nil {
			var ce *websocket.CloseError
			if !errors.As(rt.Final, &ce) || ce.Code != model.Close.Code && !(model.Close.Empty && ce.Code == 1005) {
				return fmt.Errorf("split %d (%s): close frame glued to the handshake not delivered: %v", k, path, rt.Final)
			}
		}
		return nil
	}
	first := true
	if c.R.Server {
		h := c.R.HijackR
		if h == 0 {
			h = 4096
		}
		maxK := len(model.Wire)
		if h < maxK {
			maxK = h
		}
		for k := 0; k <= maxK; k++ {
			if c.OnlyK >= 0 && k != c.OnlyK {
				continue
			}
			if !first {
				o.Evals(1)
			}
			first = false
			tr := xport.NewScriptConn(model.Wire, append([]int{k}, c.Rest...))
			tr.NoLog = true
			tr.EOFWithData = c.EOFWith && k < len(model.Wire)
			curTr = tr
			br := bufio.NewReaderSize(tr, h)
			if k > 0 {
				if _, err := br.Peek(1); err != nil {
					return fmt.Errorf("harness: %v", err)
				}
				if br.Buffered() != k {
					return fmt.Errorf("harness: buffered %d, want %d", br.Buffered(), k)
				}
			}
			w := &fakeRW{conn: tr, brw: bufio.NewReadWriter(br, bufio.NewWriterSize(tr, 4096))}
			u := websocket.Upgrader{ReadBufferSize: c.R.ReadBuf, EnableCompression: c.R.Compress, CheckOrigin: allowOrigin}
			conn, err := u.Upgrade(w, upgradeRequest(c.R.Compress), nil)
			if err != nil {
				return fmt.Errorf("split %d: Upgrade failed: %v", k, err)
			}
			path := "fresh-reader"
			switch {
			case c.R.ReadBuf == 0 && br.Size() > 256:
				path = "reuse-hijacked-reader"
			case k > 0:
				path = "wrap-buffered-bytes"
			}
			if err := judge(conn, k, path); err != nil {
				return fmt.Errorf("server, ReadBufferSize %d, hijacked reader %d: %w", c.R.ReadBuf, br.Size(), err)
			}
			o.Class("server_" + path)
			if k > 0 && k < len(model.Wire) {
				o.NonTrivial(fmt.Sprintf("%d", k))
			}
		}
		return nil
	}
	// client: 101 response followed by the stream, split at every offset
	respLen := 0
	for k := 1; ; k++ {
		if c.OnlyK >= 0 {
			k = c.OnlyK
		}
		tr := xport.NewScriptConn(model.Wire, append([]int{k}, c.Rest...))
		tr.NoLog = true
		curTr = tr
		r := &responder{compress: c.R.Compress}
		var rl int
		tr.OnWrite = func(sc *xport.ScriptConn, p []byte) {
			before := sc.RemainingLocked()
			r.onWrite(sc, p)
			if d := sc.RemainingLocked() - before; d > 0 {
				rl = d
			}
		}
		var conn *websocket.Conn
		var err error
		if c.Traced {
			var fired int
			conn, fired, err = dialOverTraced(c.R, tr)
			if err == nil && fired > 0 {
				o.Class("client_traced_dial")
			}
		} else {
			conn, err = dialOver(c.R, tr)
		}
		if err != nil {
			return fmt.Errorf("client split %d: Dial failed: %v", k, err)
		}
		respLen = rl
		if !first {
			o.Evals(1)
		}
		first = false
		var conn2 *websocket.Conn
		var model2 *Model
		if c.S2 != nil {
			model2 = BuildStream(*c.S2, false, c.R.Compress)
			tr2 := xport.NewScriptConn(model2.Wire, nil)
			tr2.NoLog = true
			r2 := &responder{compress: c.R.Compress}
			tr2.OnWrite = r2.onWrite
			var err2 error
			conn2, err2 = dialOver(c.R, tr2)
			if err2 != nil {
				return fmt.Errorf("client split %d: second Dial failed: %v", k, err2)
			}
		}
		if err := judge(conn, k, "client"); err != nil {
			if conn2 != nil {
				err = fmt.Errorf("%w (another connection was dialed before this one was read)", err)
			}
			return fmt.Errorf("client, ReadBufferSize %d, first transport read returns %d bytes of (101 response of %d bytes + %d bytes of frames): %w", c.R.ReadBuf, k, respLen, len(model.Wire), err)
		}
		if conn2 != nil {
			lens2 := make([]int, len(model2.Msgs))
			for i, m := range model2.Msgs {
				lens2[i] = len(m.Payload)
			}
			rt := RunRead(conn2, nil, len(model2.Msgs)+1, lens2, 0)
			n, err := compareRead(model2.Msgs, rt, nil)
			if err != nil || n != len(model2.Msgs) {
				return fmt.Errorf("client split %d: the second connection (dialed while the first still had glued frames pending) delivered %d of %d messages: %v / %v", k, n, len(model2.Msgs), err, rt.Final)
			}
			o.Class("client_two_dials")
		}
		o.Class("client_split")
		if k > respLen && k < respLen+len(model.Wire) {
			o.NonTrivial(fmt.Sprintf("%d", k))
			o.Class("client_split_inside_frames")
		} else if k < respLen {
			o.Class("client_split_inside_response")
		}
		if k >= respLen+len(model.Wire) || c.OnlyK >= 0 {
			break
		}
	}
	return nil
}
