package props

import (
	"errors"
	"testing"
	"time"
)

// TestStallRule: a failing evaluation that was stalled is evaluated again; a
// failing evaluation that was not stalled is final.
func TestStallRule(t *testing.T) {
	n := 0
	_, err, discarded := evalCase(func(c int, o *Obs) error {
		n++
		if n == 1 {
			time.Sleep(stallThreshold + 50*time.Millisecond)
			return errors.New("lost reply")
		}
		return nil
	}, 0, []byte("0"))
	if err != nil || discarded != 1 || n != 2 {
		t.Fatalf("stalled failure: err=%v discarded=%d evaluations=%d", err, discarded, n)
	}
	n = 0
	_, err, _ = evalCase(func(c int, o *Obs) error { n++; return errors.New("fast failure") }, 0, []byte("0"))
	if err == nil || n != 1 {
		t.Fatalf("fast failure: err=%v evaluations=%d", err, n)
	}
	n = 0
	_, err, _ = evalCase(func(c int, o *Obs) error {
		n++
		time.Sleep(stallThreshold + 50*time.Millisecond)
		return errors.New("slow deterministic failure")
	}, 0, []byte("0"))
	if err == nil || n != 4 {
		t.Fatalf("slow deterministic failure: err=%v evaluations=%d", err, n)
	}
}
