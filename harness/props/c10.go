package props

import (
	"bytes"
	"fmt"
	"time"

	"github.com/gorilla/websocket"
	"pgregory.net/rapid"

	"verifharness/wsref"
	"verifharness/xport"
)

// WFaultCase is a write program run fault-free and then with a fault at every
// write-side transport operation.
type WFaultCase struct {
	W     ConnCfg `json:"writer"`
	Steps []WStep `json:"steps"`
	// OnlyK / OnlyKind restrict the enumeration (replay); -1 / "" = all.
	OnlyK    int    `json:"only_k"`
	OnlyKind string `json:"only_kind,omitempty"`
}

var wfaultKinds = []string{xport.FaultError, xport.FaultTimeout, xport.FaultShort, xport.FaultTemporary, xport.FaultShortTemporary, xport.FaultFullErr, xport.FaultShortTimeout}

func genWFaultCase(t *rapid.T) WFaultCase {
	var c WFaultCase
	c.W.Server = rapid.Bool().Draw(t, "writer_is_server")
	c.W.WriteBuf = genBuf(t, "wbuf")
	c.W.Pool = rapid.Bool().Draw(t, "pool")
	c.W.Compress = rapid.Bool().Draw(t, "compress")
	c.W.HSTimeout = rapid.IntRange(0, 2).Draw(t, "hs_timeout") == 0
	c.Steps = genWriteProgram(t, c.W.EffWriteBuf(), WGenOpts{MaxSteps: 6, AllowHuge: false, AllowBad: true, AllowClose: false, AllowCtl: true})
	c.OnlyK = -1
	return c
}

func isMessageLevel(api string) bool {
	switch api {
	case "WriteMessage", "NextWriter", "WriteControl", "WriteJSON", "WritePreparedMessage", "Close":
		return true
	}
	return false
}

func checkC10(c WFaultCase, o *Obs) error {
	var nEx int
	c.Steps, nEx = steerWriteProgram("C10", c.W, c.Steps)
	o.Excluded(nEx)

	// ---- fault-free run: invalid requests harmless, deadlines applied
	pool := &simplePool{}
	tr0 := xport.NewScriptConn(nil, nil)
	c0, err := NewConn(c.W, tr0, pool)
	if err != nil {
		return err
	}
	tw0 := RunWrite(c0, tr0, c.Steps, c.W.Compress)
	if err := checkCalls(tw0, c.Steps); err != nil {
		return err
	}
	_, msgs0, err := decodeWire(tr0.Wrote, c.W, false)
	if err != nil {
		return err
	}
	if err := matchWire(msgs0, tw0.Sent); err != nil {
		return fmt.Errorf("fault-free run (invalid requests must not poison the connection): %v", err)
	}
	if err := checkDeadlines(tw0, tr0.Log); err != nil {
		return err
	}
	n := tr0.WriteOps()
	wire0 := append([]byte(nil), tr0.Wrote...)
	badBetween := false
	for i, s := range c.Steps {
		if s.Op == "bad" && i > 0 && i < len(c.Steps)-1 {
			badBetween = true
		}
	}
	o.ClassIf(badBetween, "invalid_request_between_valid")
	if badBetween {
		o.NonTrivial("bad")
	}

	// ---- every operation index x every fault kind
	for k := 0; k < n; k++ {
		if c.OnlyK >= 0 && k != c.OnlyK {
			continue
		}
		for _, kind := range wfaultKinds {
			if c.OnlyKind != "" && kind != c.OnlyKind {
				continue
			}
			o.Evals(1)
			if err := runWFault(c, k, kind, wire0, o); err != nil {
				return fmt.Errorf("fault %q at write-side transport operation %d of %d: %w", kind, k, n, err)
			}
		}
	}
	// ---- an application write deadline that has expired, set before step j, on a
	// transport that honours deadlines: the first frame written under it times
	// out, and that is a transport failure like any other
	if c.OnlyK < 0 {
		for j := 0; j < len(c.Steps); j++ {
			if c.Steps[j].Op == "deadline" {
				continue
			}
			steps := append(append(append([]WStep(nil), c.Steps[:j]...), WStep{Op: "deadline", Deadline: -1}), c.Steps[j:]...)
			// later deadline steps would re-arm the transport: the application
			// of this scenario sets the expired one last
			for i := j + 1; i < len(steps); i++ {
				if steps[i].Op == "deadline" {
					steps[i].Deadline = -1
				}
			}
			c2 := c
			c2.Steps = steps
			o.Evals(1)
			if err := runWFault(c2, -1, "expired-deadline", nil, o); err != nil {
				return fmt.Errorf("expired write deadline set before step %d on a transport that honours deadlines: %w", j, err)
			}
			// the same with a fresh deadline set right after step j (an application
			// that notices the timeout and tries again)
			steps = append(append(append([]WStep(nil), c.Steps[:j]...), WStep{Op: "deadline", Deadline: -1}, c.Steps[j], WStep{Op: "deadline", Deadline: 2}), c.Steps[j+1:]...)
			c2.Steps = steps
			o.Evals(1)
			if err := runWFault(c2, -1, "expired-deadline-then-fresh", nil, o); err != nil {
				return fmt.Errorf("expired write deadline for step %d only, fresh deadline afterwards, transport honours deadlines: %w", j, err)
			}
		}
	}
	return nil
}

// checkDeadlines verifies that every transport Write happens while the
// transport's write deadline - as left by the most recent SetWriteDeadline /
// SetDeadline call, whenever it was made - equals the deadline in force for the
// API call that writes the frame (the connection's write deadline, or the
// argument of WriteControl).  A connection that skips redundant deadline calls
// is fine; one that leaves another frame's deadline armed is not.
func checkDeadlines(tw *WTrace, log []xport.Op) error {
	for _, op := range log {
		if op.Kind == xport.OpSetDeadline || op.Kind == xport.OpSetReadDeadline {
			return fmt.Errorf("a write call changed the connection's READ deadline (%v to %s): the reading goroutine's deadline is not the writer's to set", op.Kind, fmtDeadline(op.Deadline, tw.Base))
		}
	}
	var armed time.Time
	ci := 0
	for i := range log {
		op := &log[i]
		for ci < len(tw.Calls) && i >= tw.Calls[ci].OpsAfter {
			ci++
		}
		switch op.Kind {
		case xport.OpSetWriteDeadline, xport.OpSetDeadline:
			armed = op.Deadline
		case xport.OpWrite:
			if ci >= len(tw.Calls) || i < tw.Calls[ci].OpsBefore {
				continue
			}
			cl := tw.Calls[ci]
			if !armed.Equal(cl.Deadline) {
				return fmt.Errorf("step %d %s: a frame was written while the transport's write deadline was %s, want %s (the deadline last given to SetWriteDeadline, or WriteControl's argument)", cl.Step, cl.API, fmtDeadline(armed, tw.Base), fmtDeadline(cl.Deadline, tw.Base))
			}
		}
	}
	return nil
}

func fmtDeadline(t, base time.Time) string {
	if t.IsZero() {
		return "none"
	}
	return "base+" + t.Sub(base).Round(time.Second).String()
}

func runWFault(c WFaultCase, k int, kind string, wire0 []byte, o *Obs) error {
	pool := &simplePool{}
	tr := xport.NewScriptConn(nil, nil)
	conn, err := NewConn(c.W, tr, pool)
	if err != nil {
		return err
	}
	if k >= 0 {
		tr.SetWriteFault(&xport.WriteFault{K: k, Kind: kind})
	} else {
		tr.HonourWriteDeadline = true
	}
	tw := RunWrite(conn, tr, c.Steps, c.W.Compress)
	if !tr.WriteFaultFired() {
		if k < 0 {
			// Nothing reached the transport under the expired deadline.  If the
			// library nevertheless failed a valid message-level call, that message
			// is lost and the stream must end there: later calls fail, nothing
			// more is written.
			for i, cl := range tw.Calls {
				if cl.Err == nil || cl.Bad || !isMessageLevel(cl.API) {
					continue
				}
				for _, later := range tw.Calls[i+1:] {
					if isMessageLevel(later.API) && later.Err == nil && !later.Bad {
						return fmt.Errorf("step %d %s failed (%v) without any transport failure, yet step %d %s succeeded afterwards: a message was dropped and the stream goes on", cl.Step, cl.API, cl.Err, later.Step, later.API)
					}
				}
				if len(tr.Wrote) != cl.WroteAfter {
					return fmt.Errorf("step %d %s failed (%v), yet %d more bytes were written afterwards", cl.Step, cl.API, cl.Err, len(tr.Wrote)-cl.WroteAfter)
				}
				break
			}
			return nil
		}
		return fmt.Errorf("harness: fault did not fire (program is not deterministic in its transport operations)")
	}
	if k < 0 {
		k = tr.FiredAtOp
	}
	// (a) what was accepted is a valid frame sequence + at most one truncated frame
	frames, consumed, derr := wsref.DecodeFrames(tr.Wrote, !c.W.Server)
	if derr != nil {
		return fmt.Errorf("bytes accepted before the fault are not well-formed frames: %v", derr)
	}
	if _, aerr := wsref.Assemble(frames, wsref.AssembleOpts{Compression: c.W.Compress}); aerr != nil {
		return fmt.Errorf("frames accepted before the fault violate message framing: %v", aerr)
	}
	_ = consumed
	if c.W.Server && wire0 != nil && !bytes.HasPrefix(wire0, tr.Wrote) {
		return fmt.Errorf("bytes accepted before the fault (%d) are not a prefix of the fault-free stream (differs at %d)", len(tr.Wrote), firstDiff(tr.Wrote, wire0))
	}
	// epilogue: what an application does when it notices the failure - it tries
	// to say goodbye, possibly twice (its own close, then a deferred one); all
	// of it must fail and write nothing
	epilogue := []struct {
		api string
		f   func() error
	}{
		{"WriteControl(close)", func() error {
			return conn.WriteControl(websocket.CloseMessage, websocket.FormatCloseMessage(1001, ""), time.Now().Add(time.Hour))
		}},
		{"WriteControl(close) again", func() error {
			return conn.WriteControl(websocket.CloseMessage, websocket.FormatCloseMessage(1000, ""), time.Time{})
		}},
		{"WriteMessage(close)", func() error { return conn.WriteMessage(websocket.CloseMessage, websocket.FormatCloseMessage(1000, "")) }},
		{"WriteMessage(text)", func() error { return conn.WriteMessage(websocket.TextMessage, []byte("late")) }},
	}
	for _, e := range epilogue {
		if err := e.f(); err == nil {
			return fmt.Errorf("%s after the program succeeded although a transport operation had failed earlier", e.api)
		}
	}
	// (b) nothing is written after the fault
	if len(tr.AfterFault) > 0 {
		return fmt.Errorf("%d bytes were handed to the transport after a transport operation had failed: %s", len(tr.AfterFault), abbrev(tr.AfterFault))
	}
	// (c) the faulted call and every later message-level call fail
	fc := -1
	for i, cl := range tw.Calls {
		if cl.WOpsBefore <= k && k < cl.WOpsAfter {
			fc = i
			break
		}
	}
	if fc < 0 {
		return fmt.Errorf("harness: cannot attribute the fault to a call")
	}
	f := tw.Calls[fc]
	switch f.API {
	case "WriteMessage", "WriteControl", "WriteJSON", "WritePreparedMessage", "Close", "NextWriter":
		// (a NextWriter call touches the transport only to flush the final frame
		// of a writer the application left open)
		if f.Err == nil && !f.Bad {
			return fmt.Errorf("step %d %s returned nil although a transport operation failed while it was writing its message", f.Step, f.API)
		}
	}
	for _, cl := range tw.Calls[fc+1:] {
		if isMessageLevel(cl.API) && cl.Err == nil {
			return fmt.Errorf("step %d %s succeeded after an earlier transport failure (during step %d %s)", cl.Step, cl.API, f.Step, f.API)
		}
	}
	// classes
	multi := false
	for _, s := range tw.Sent {
		if !s.Control && len(s.Payload) > c.W.EffWriteBuf() {
			multi = true
		}
	}
	onDeadline := false
	// which kind of operation was hit: replay the op log
	w := 0
	for _, op := range tr.Log {
		if op.Kind == xport.OpWrite || op.Kind == xport.OpSetWriteDeadline || op.Kind == xport.OpSetDeadline {
			if w == k {
				onDeadline = op.Kind != xport.OpWrite
				break
			}
			w++
		}
	}
	o.Class("fault_" + kind)
	o.ClassIf(onDeadline, "fault_on_deadline_call")
	o.ClassIf(multi, "fault_in_program_with_multiframe_message")
	o.Class("faulted_call_" + f.API)
	if multi || onDeadline {
		o.NonTrivial(fmt.Sprintf("%d/%s", k, kind))
	}
	return nil
}
