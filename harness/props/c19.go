package props

import (
	"bytes"
	"errors"
	"fmt"
	"sync"
	"time"

	"github.com/gorilla/websocket"
	"pgregory.net/rapid"

	"verifharness/wsref"
	"verifharness/xport"
)

// PStep is one step of a PreparedMessage history.
type PStep struct {
	// Op: send | enablecomp | level | mutate
	Op    string `json:"op"`
	Conn  int    `json:"conn"`
	On    bool   `json:"on,omitempty"`
	Level int    `json:"level,omitempty"`
}

// PrepCase is one PreparedMessage sent to a population of connections.
type PrepCase struct {
	MT    int       `json:"mt"`
	Data  Payload   `json:"data"`
	Conns []ConnCfg `json:"conns"`
	Hist  []PStep   `json:"hist"`
	// Conc: every connection's history runs in its own goroutine (race leg).
	Conc bool `json:"conc,omitempty"`
	// Prelude: before the history every connection is sent ANOTHER prepared
	// message (a 3-byte ping, or a short text) - prepared messages of
	// different types share nothing on a connection.
	Prelude int `json:"prelude,omitempty"` // 0 none, 9 ping, 1 text
}

func genPrepCase(t *rapid.T, conc bool) PrepCase {
	var c PrepCase
	c.Conc = conc
	c.MT = rapid.SampledFrom([]int{1, 2, 2, 9, 10, 8}).Draw(t, "mt")
	c.Prelude = rapid.SampledFrom([]int{0, 0, 9, 1}).Draw(t, "prelude")
	if c.MT >= 8 {
		n := rapid.SampledFrom([]int{0, 2, 5, 124, 125, 126, 200}).Draw(t, "clen")
		c.Data = genPayloadOfLen(t, "cp", n)
		if c.MT == 8 && n >= 2 && n <= 125 {
			body := websocket.FormatCloseMessage(1000, string(make([]byte, 0)))
			for len(body) < n {
				body = append(body, 'x')
			}
			c.Data = Payload{Len: n, Kind: "raw", Raw: body}
		}
	} else {
		n := rapid.OneOf(rapid.SampledFrom([]int{0, 1, 125, 126, 4095, 4096, 4097, 8191, 8192, 8193, 8206, 8220, 8221, 8222, 65535, 65536, 70000}), rapid.IntRange(0, 300), rapid.IntRange(0, 20000)).Draw(t, "len")
		c.Data = genPayloadOfLen(t, "p", n)
	}
	nc := rapid.IntRange(1, 8).Draw(t, "nconns")
	for i := 0; i < nc; i++ {
		c.Conns = append(c.Conns, ConnCfg{Server: rapid.Bool().Draw(t, "server"), Compress: rapid.Bool().Draw(t, "compress"), WriteBuf: rapid.SampledFrom([]int{0, 0, 125, 1024}).Draw(t, "wbuf")})
	}
	c.Hist = rapid.SliceOfN(rapid.Custom(func(t *rapid.T) PStep {
		s := PStep{Conn: rapid.IntRange(0, nc-1).Draw(t, "conn")}
		switch rapid.IntRange(0, 9).Draw(t, "pop") {
		case 0, 1:
			s.Op = "enablecomp"
			s.On = rapid.Bool().Draw(t, "on")
		case 2, 3:
			s.Op = "level"
			s.Level = rapid.IntRange(-2, 9).Draw(t, "level")
		case 4:
			s.Op = "mutate"
		default:
			s.Op = "send"
		}
		return s
	}), 1, 30).Draw(t, "hist")
	return c
}

type prepConnState struct {
	cfg      ConnCfg
	tr       *xport.ScriptConn
	conn     *websocket.Conn
	compOn   bool
	level    int
	settings []PStep // setting changes applied so far (for the twin)
	closed   bool
}

// decodeOne decodes a wire segment that must carry exactly one message.
func decodeOne(seg []byte, cfg ConnCfg) (wsref.WireMsg, []byte, error) {
	frames, consumed, err := wsref.DecodeFrames(seg, !cfg.Server)
	if err != nil {
		return wsref.WireMsg{}, nil, fmt.Errorf("not well-formed frames: %v", err)
	}
	if consumed != len(seg) {
		return wsref.WireMsg{}, nil, fmt.Errorf("incomplete frame at the end (%d stray bytes)", len(seg)-consumed)
	}
	msgs, err := wsref.Assemble(frames, wsref.AssembleOpts{Compression: cfg.Compress})
	if err != nil {
		return wsref.WireMsg{}, nil, fmt.Errorf("framing violation: %v", err)
	}
	if len(msgs) != 1 || !msgs[0].Complete {
		return wsref.WireMsg{}, nil, fmt.Errorf("%d messages on the wire, want exactly one complete message", len(msgs))
	}
	m := msgs[0]
	payload := m.Payload
	if m.Compressed {
		payload, err = wsref.Inflate(m.Payload, 1<<24)
		if err != nil {
			return m, nil, fmt.Errorf("RSV1 payload does not inflate: %v", err)
		}
	}
	return m, payload, nil
}

func checkC19(c PrepCase, o *Obs) error {
	orig := c.Data.Bytes()
	callerSlice := append([]byte(nil), orig...)
	pm, err := websocket.NewPreparedMessage(c.MT, callerSlice)
	validCtl := c.MT < 8 || len(orig) <= 125
	if !validCtl {
		if err == nil {
			// the invalid control message must then fail when written and write nothing
			// on every kind of connection, however often it is sent, and without
			// harming the connection (direct messages behave like that)
			for _, cfg := range []ConnCfg{{Server: true}, {Server: false}, {Server: true, Compress: true}} {
				tr := xport.NewScriptConn(nil, nil)
				conn, e := NewConn(cfg, tr, nil)
				if e != nil {
					return e
				}
				for try := 1; try <= 3; try++ {
					if e := conn.WritePreparedMessage(pm); e == nil || len(tr.Wrote) > 0 {
						return fmt.Errorf("a prepared control message of %d bytes was accepted on send %d to a %s connection (err=%v, %d bytes written)", len(orig), try, cfg.Role(), e, len(tr.Wrote))
					}
				}
				if e := conn.WriteMessage(websocket.TextMessage, []byte("still usable")); e != nil {
					return fmt.Errorf("after an invalid prepared control message was refused, the %s connection refuses a valid message: %v", cfg.Role(), e)
				}
			}
		}
		o.Class("invalid_control_prepared")
		return nil
	}
	if err != nil {
		return fmt.Errorf("NewPreparedMessage(type %d, %d bytes) failed: %v", c.MT, len(orig), err)
	}
	conns := make([]*prepConnState, len(c.Conns))
	for i, cfg := range c.Conns {
		tr := xport.NewScriptConn(nil, nil)
		tr.NoLog = true
		conn, err := NewConn(cfg, tr, nil)
		if err != nil {
			return err
		}
		conns[i] = &prepConnState{cfg: cfg, tr: tr, conn: conn, compOn: true, level: 1}
		if c.Prelude != 0 {
			pre, perr := websocket.NewPreparedMessage(c.Prelude, []byte("pre"))
			if perr != nil {
				return perr
			}
			if werr := conn.WritePreparedMessage(pre); werr != nil {
				return fmt.Errorf("conn %d: prelude prepared message (type %d) failed: %v", i, c.Prelude, werr)
			}
			frames, _, derr := wsref.DecodeFrames(tr.Wrote, !cfg.Server)
			if derr != nil || len(frames) != 1 || int(frames[0].Opcode) != c.Prelude {
				return fmt.Errorf("conn %d: prelude prepared message (type %d) put %d frames on the wire (%v)", i, c.Prelude, len(frames), derr)
			}
			tr.ResetLog()
		}
	}
	o.ClassIf(c.Prelude != 0, "another_prepared_message_sent_first")
	sendsPerConn := map[int]int{}
	changed, mutated := false, false
	var mu sync.Mutex
	var firstErr error
	setErr := func(e error) {
		mu.Lock()
		if firstErr == nil {
			firstErr = e
		}
		mu.Unlock()
	}
	runStep := func(s PStep) {
		st := conns[s.Conn%len(conns)]
		switch s.Op {
		case "enablecomp":
			st.conn.EnableWriteCompression(s.On)
			st.compOn = s.On
			st.settings = append(st.settings, s)
		case "level":
			if err := st.conn.SetCompressionLevel(s.Level); err != nil {
				setErr(fmt.Errorf("SetCompressionLevel(%d): %v", s.Level, err))
				return
			}
			st.level = s.Level
			st.settings = append(st.settings, s)
		case "mutate":
			if !c.Conc { // in the concurrent leg the caller's slice is left alone (it would be the application's race)
				for i := range callerSlice {
					callerSlice[i] ^= 0x5a
				}
			}
		case "send":
			before := len(st.tr.Wrote)
			err := st.conn.WritePreparedMessage(pm)
			seg := st.tr.Wrote[before:]
			if st.closed {
				if err == nil || len(seg) > 0 {
					setErr(fmt.Errorf("conn %d: a prepared message sent after a prepared close frame returned %v and wrote %d bytes", s.Conn, err, len(seg)))
				} else if !errors.Is(err, websocket.ErrCloseSent) {
					setErr(fmt.Errorf("conn %d: send after a prepared close failed with %v, want ErrCloseSent", s.Conn, err))
				}
				return
			}
			if err != nil {
				setErr(fmt.Errorf("conn %d (%s, compress=%v): WritePreparedMessage failed: %v", s.Conn, st.cfg.Role(), st.cfg.Compress, err))
				return
			}
			if c.MT == 8 {
				st.closed = true
			}
			m, payload, derr := decodeOne(seg, st.cfg)
			if derr != nil {
				setErr(fmt.Errorf("conn %d (%s, negotiated=%v, write compression=%v, level %d): %v", s.Conn, st.cfg.Role(), st.cfg.Compress, st.compOn, st.level, derr))
				return
			}
			if int(m.Opcode) != c.MT {
				setErr(fmt.Errorf("conn %d: opcode %d on the wire, prepared type %d", s.Conn, m.Opcode, c.MT))
				return
			}
			if !bytes.Equal(payload, orig) {
				setErr(fmt.Errorf("conn %d (%s, negotiated=%v, enabled=%v, level %d): payload on the wire differs from the payload given at creation at byte %d (wire %d bytes, original %d bytes; caller slice mutated=%v)", s.Conn, st.cfg.Role(), st.cfg.Compress, st.compOn, st.level, firstDiff(payload, orig), len(payload), len(orig), mutated))
				return
			}
			mayCompress := st.cfg.Compress && st.compOn && c.MT < 8
			if m.Compressed && !mayCompress {
				setErr(fmt.Errorf("conn %d: RSV1 set although compression is not negotiated+enabled for this connection right now", s.Conn))
				return
			}
			// differential twin: a fresh connection with the same role and settings history given WriteMessage
			ttr := xport.NewScriptConn(nil, nil)
			ttr.NoLog = true
			twin, terr := NewConn(st.cfg, ttr, nil)
			if terr != nil {
				setErr(terr)
				return
			}
			for _, ss := range st.settings {
				if ss.Op == "enablecomp" {
					twin.EnableWriteCompression(ss.On)
				} else {
					twin.SetCompressionLevel(ss.Level)
				}
			}
			if err := twin.WriteMessage(c.MT, orig); err != nil {
				setErr(fmt.Errorf("twin WriteMessage failed: %v", err))
				return
			}
			tm, tpayload, terr2 := decodeOne(ttr.Wrote, st.cfg)
			if terr2 != nil {
				setErr(fmt.Errorf("twin connection: %v", terr2))
				return
			}
			if tm.Compressed != m.Compressed || tm.Opcode != m.Opcode || !bytes.Equal(tpayload, payload) {
				setErr(fmt.Errorf("conn %d: prepared message went out compressed=%v, WriteMessage on an identically configured connection sends compressed=%v", s.Conn, m.Compressed, tm.Compressed))
				return
			}
			// Same compression level: compress/flate is deterministic, so the
			// deflate stream (concatenated over the frames) must be the one
			// WriteMessage produces at this connection's level.
			if m.Compressed && !bytes.Equal(m.Payload, tm.Payload) {
				setErr(fmt.Errorf("conn %d (level %d): the prepared message's deflate stream (%d bytes) differs from what WriteMessage sends at this connection's compression level (%d bytes) - rendered for other settings", s.Conn, st.level, len(m.Payload), len(tm.Payload)))
				return
			}
			if m.Compressed {
				mu.Lock()
				o.Class("sent_compressed")
				mu.Unlock()
			}
		}
	}
	if c.Conc {
		var wg sync.WaitGroup
		per := make([][]PStep, len(conns))
		for _, s := range c.Hist {
			i := s.Conn % len(conns)
			per[i] = append(per[i], s)
		}
		for i := range per {
			wg.Add(1)
			go func(steps []PStep) {
				defer wg.Done()
				for _, s := range steps {
					runStep(s)
				}
			}(per[i])
		}
		wg.Wait()
	} else {
		for _, s := range c.Hist {
			if s.Op == "mutate" {
				mutated = true
			}
			if s.Op == "enablecomp" || s.Op == "level" {
				if sendsPerConn[s.Conn%len(conns)] > 0 {
					changed = true
				}
			}
			if s.Op == "send" {
				sendsPerConn[s.Conn%len(conns)]++
			}
			runStep(s)
			if firstErr != nil {
				break
			}
		}
	}
	if firstErr != nil {
		return firstErr
	}
	if !c.Conc {
		// Epilogue, per connection still open: a prepared message is sent under
		// the connection's write deadline like a direct one, and after a transport
		// failure during a prepared send the connection is as dead as after a
		// failed WriteMessage.
		for i, st := range conns {
			if st.closed {
				continue
			}
			st.conn.SetWriteDeadline(time.Now().Add(time.Hour))
			nodl := st.tr.WritesNoDeadline
			if err := st.conn.WritePreparedMessage(pm); err != nil {
				return fmt.Errorf("conn %d: prepared send under a write deadline an hour away failed: %v", i, err)
			}
			if st.tr.WritesNoDeadline != nodl {
				return fmt.Errorf("conn %d: the prepared message was written with no write deadline armed on the transport although SetWriteDeadline had been called: WriteMessage applies the deadline to every frame", i)
			}
			if c.MT == 8 {
				continue
			}
			st.tr.SetWriteFault(&xport.WriteFault{NextWrite: true, Kind: []string{xport.FaultError, xport.FaultShort, xport.FaultTimeout}[i%3]}) // the Write itself, however many deadline calls precede it
			if err := st.conn.WritePreparedMessage(pm); err == nil {
				return fmt.Errorf("conn %d: the transport failed during a prepared send, WritePreparedMessage returned nil", i)
			}
			before := len(st.tr.Wrote)
			err2 := st.conn.WritePreparedMessage(pm)
			err3 := st.conn.WriteMessage(websocket.TextMessage, []byte("x"))
			if err2 == nil || err3 == nil || len(st.tr.Wrote) != before || len(st.tr.AfterFault) > 0 {
				return fmt.Errorf("conn %d: after a transport failure during a prepared send, a second prepared send returned %v, WriteMessage %v, and %d more bytes were handed to the transport: a failed prepared send ends the connection's write side like a failed WriteMessage", i, err2, err3, len(st.tr.Wrote)-before+len(st.tr.AfterFault))
			}
		}
		o.Class("epilogue_deadline_and_fault")
	}
	if c.Conc {
		if rep, grew := raceLogGrew(); grew {
			return fmt.Errorf("DATA RACE reported while one PreparedMessage was sent from %d goroutines:\n%s", len(conns), rep)
		}
	}
	distinct := 0
	for _, n := range sendsPerConn {
		if n > 0 {
			distinct++
		}
	}
	o.ClassIf(distinct >= 2, "sent_to_2plus_conns")
	o.ClassIf(changed, "setting_changed_between_sends")
	o.ClassIf(mutated, "caller_slice_mutated")
	o.ClassIf(len(orig) > 4096, "payload_gt_4096")
	o.Class(fmt.Sprintf("type_%d", c.MT))
	if distinct >= 2 || changed || mutated || c.Conc {
		o.NonTrivial("")
	}
	return nil
}
