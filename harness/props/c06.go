package props

import (
	"bytes"
	"errors"
	"fmt"
	"io"
	"runtime/metrics"
	"time"

	"github.com/gorilla/websocket"
	"pgregory.net/rapid"

	"verifharness/wsref"
	"verifharness/xport"
)

// OverMsg is a message whose running sum of claimed frame lengths crosses the
// read limit at frame len(Pre) (0-based).
type OverMsg struct {
	Op  byte  `json:"op"`
	Pre []int `json:"pre"` // payload sizes of the frames before the crossing frame (sum <= L)
	// Kind of the crossing frame's claimed length: plus1 | double | 2g | max | topbit
	Kind string `json:"kind"`
	// Present: all | part | none  (payload bytes of the crossing frame that exist in the stream)
	Present string `json:"present"`
	PartN   int    `json:"part_n,omitempty"`
	// Ctl: a ping placed before the crossing frame (must not count).
	Ping bool `json:"ping,omitempty"`
	// Kind "withinbig": not an over-limit message at all - the limit is raised
	// to 2^40 and a frame claims 2^27..2^31 bytes of which only PartN exist;
	// only the memory clause (and error reporting) is judged.  ReadMsg reads it
	// with ReadMessage instead of NextReader+Read.
	ReadMsg bool `json:"read_msg,omitempty"`
	// Compressed (only with negotiated compression and at least one frame
	// before the crossing frame): the message is a compressed one (RSV1); the
	// frames before the crossing frame carry a stored-block deflate stream.
	Compressed bool `json:"compressed,omitempty"`
}

// LimitCase exercises SetReadLimit.
type LimitCase struct {
	R      ConnCfg  `json:"reader"`
	L      int64    `json:"limit"`
	S      Stream   `json:"within"` // messages within the limit
	Reads  []RStep  `json:"reads"`  // one per within-limit message (cycled)
	Over   *OverMsg `json:"over,omitempty"`
	Chunks []int    `json:"chunks,omitempty"`
	// ReLimit: the ping handler calls SetReadLimit(L) again (same L, possibly
	// in the middle of a fragmented message): nothing may change.
	ReLimit bool `json:"relimit,omitempty"`
	// StaleWriteDeadline: the application set a write deadline (for its own
	// messages) that has passed long ago; automatic replies are not subject to it.
	StaleWriteDeadline bool `json:"stale_write_deadline,omitempty"`
	// WriteSide: 0 healthy; 1 the application has already sent its own close
	// frame; 2 every transport write fails.  The 1009 close then cannot get
	// out, the over-limit read fails with ErrReadLimit all the same.
	WriteSide int `json:"write_side,omitempty"`
	// OverAbandon >= 0: the application reads at most that many bytes of the
	// over-limit message and calls NextReader again (the library skips the
	// rest): the limit applies to what is skipped too.
	OverAbandon int `json:"over_abandon"`
	// EOFWith: the transport returns its last bytes together with io.EOF.
	EOFWith bool `json:"eof_with,omitempty"`
}

func genLimitCase(t *rapid.T) LimitCase {
	var c LimitCase
	c.R = genReaderCfg(t)
	c.L = int64(rapid.OneOf(rapid.IntRange(1, 300), rapid.IntRange(1, 20), rapid.SampledFrom([]int{1, 125, 126, 1024, 4096, 65535, 65536, 1000000})).Draw(t, "L"))
	L := int(c.L)
	n := rapid.IntRange(0, 4).Draw(t, "nwithin")
	for i := 0; i < n; i++ {
		m := genSMsg(t, SGenOpts{Compression: c.R.Compress, R: c.R.ReadBuf, MaxLen: 200})
		var l int
		switch rapid.IntRange(0, 4).Draw(t, "wlen_c") {
		case 0:
			l = L
		case 1:
			l = L - 1
		case 2:
			l = rapid.IntRange(0, 5).Draw(t, "wlen")
		default:
			l = rapid.IntRange(0, L).Draw(t, "wlen")
		}
		if l > L {
			l = L
		}
		if l > 70000 {
			l = 70000 - rapid.IntRange(0, 3).Draw(t, "wlen_cap")
		}
		if l < 0 {
			l = 0
		}
		m.Data = genPayloadOfLen(t, "wp", l)
		if c.R.Compress && m.Compressed && rapid.Bool().Draw(t, "inflates_past_limit") {
			// the limit counts payload bytes on the wire: a compressed message
			// may inflate to much more than L
			big := l*rapid.IntRange(2, 40).Draw(t, "expand") + rapid.IntRange(1, 50).Draw(t, "expand_add")
			if big > 30000 {
				big = 30000
			}
			m.Data = Payload{Len: big, Kind: rapid.SampledFrom([]string{"zeros", "ff", "pat4", "text"}).Draw(t, "expand_kind"), Seed: 7}
		}
		// re-fit fragment sizes to the new length
		for j := range m.Frags {
			if m.Frags[j] > l {
				m.Frags[j] = rapid.IntRange(0, l).Draw(t, "wfrag")
			}
		}
		c.S.Msgs = append(c.S.Msgs, m)
	}
	c.S.KeySeed = rapid.Uint32().Draw(t, "keyseed")
	c.Reads = make([]RStep, 0, n)
	for i := 0; i < n; i++ {
		st := RStep{Op: "reader", Abandon: -1}
		switch rapid.IntRange(0, 4).Draw(t, "rb") {
		case 0:
			st.Op = "readmessage"
		case 1:
			st.Abandon = 0 // not read at all
		case 2:
			st.Abandon = rapid.IntRange(0, 20).Draw(t, "partial")
		}
		st.Sizes = rapid.SliceOfN(rapid.SampledFrom([]int{1, 2, 7, 64, 512, 5000}), 0, 3).Draw(t, "rsizes")
		c.Reads = append(c.Reads, st)
	}
	if rapid.IntRange(0, 3).Draw(t, "has_over") > 0 {
		o := &OverMsg{Op: rapid.SampledFrom([]byte{1, 2}).Draw(t, "oop")}
		np := rapid.IntRange(0, 3).Draw(t, "opre_n")
		budget := L
		if budget > 5000 {
			budget = 5000
		}
		for i := 0; i < np; i++ {
			var a int
			if rapid.IntRange(0, 3).Draw(t, "opre_fill") == 0 {
				a = budget // reach exactly L (when L <= 5000)
			} else {
				a = rapid.IntRange(0, budget).Draw(t, "opre")
			}
			o.Pre = append(o.Pre, a)
			budget -= a
		}
		o.Kind = rapid.SampledFrom([]string{"plus1", "plus1", "double", "2g", "max", "topbit", "withinbig"}).Draw(t, "okind")
		o.ReadMsg = rapid.Bool().Draw(t, "oreadmsg")
		o.Present = rapid.SampledFrom([]string{"all", "part", "none", "none"}).Draw(t, "opresent")
		o.PartN = rapid.IntRange(1, 40).Draw(t, "opartn")
		o.Compressed = rapid.IntRange(0, 2).Draw(t, "ocompressed") == 0
		o.Ping = rapid.Bool().Draw(t, "oping")
		c.Over = o
	}
	c.Chunks = genChunks(t, "chunks", 800)
	c.ReLimit = rapid.IntRange(0, 2).Draw(t, "relimit") == 0
	c.StaleWriteDeadline = rapid.IntRange(0, 3).Draw(t, "stale_wdl") == 0
	c.WriteSide = rapid.SampledFrom([]int{0, 0, 0, 1, 2}).Draw(t, "write_side")
	c.OverAbandon = -1
	if rapid.IntRange(0, 3).Draw(t, "over_abandon") == 0 {
		c.OverAbandon = rapid.IntRange(0, 6).Draw(t, "over_abandon_n")
	}
	if rapid.IntRange(0, 9).Draw(t, "huge_limit") == 0 {
		// limits near the top of the range: everything generated above is within
		// them; only a length with the top bit set still exceeds them
		c.L = rapid.SampledFrom([]int64{1<<63 - 1, 1<<63 - 2, 1 << 62, 1<<32 + 1, 1 << 31}).Draw(t, "huge_L")
		if c.Over != nil {
			c.Over.Kind, c.Over.Compressed = "topbit", false
		}
	}
	c.EOFWith = rapid.Bool().Draw(t, "eof_with_last_bytes")
	return c
}

func heapAllocs() uint64 {
	s := []metrics.Sample{{Name: "/gc/heap/allocs:bytes"}}
	metrics.Read(s)
	if s[0].Value.Kind() == metrics.KindUint64 {
		return s[0].Value.Uint64()
	}
	return 0
}

func checkC06(c LimitCase, o *Obs) error {
	L := c.L
	masked := c.R.Server
	// Within-limit messages: a compressed message whose deflated size would
	// exceed L is sent uncompressed instead (its payload is <= L by construction).
	s := c.S
	s.Msgs = append([]SMsg(nil), c.S.Msgs...)
	for i := range s.Msgs {
		if s.Msgs[i].Data.Len > int(L) && !(s.Msgs[i].Compressed && c.R.Compress) {
			s.Msgs[i].Data = Payload{Len: int(L), Kind: "counter"}
		}
	}
	model := BuildStream(s, masked, c.R.Compress)
	for i, m := range model.Msgs {
		if int64(m.WireLen) > L {
			s.Msgs[i].Compressed = false
			if s.Msgs[i].Data.Len > int(L) {
				s.Msgs[i].Data = Payload{Len: int(L), Kind: "counter"}
			}
		}
	}
	model = BuildStream(s, masked, c.R.Compress)
	for _, m := range model.Msgs {
		if int64(m.WireLen) > L {
			panic("harness: within-limit message exceeds the limit")
		}
	}
	wire := append([]byte(nil), model.Wire...)
	var pings [][]byte
	for _, mc := range model.Ctl {
		if mc.Op == wsref.OpPing {
			pings = append(pings, mc.Payload)
		}
	}

	// The over-limit message.
	var overDelivered []byte // bytes that may be delivered for it
	overflow, topbit, withinBig := false, false, false
	var claim uint64
	received := len(wire)
	if ov := c.Over; ov != nil {
		var sum int64
		fi := 1000
		mk := func(f wsref.Frame) {
			f.Masked = masked
			f.Key = streamKey(c.S.KeySeed, fi, "rand", nil)
			fi++
			wire = wsref.AppendFrame(wire, f)
		}
		overCompressed := ov.Compressed && c.R.Compress && len(ov.Pre) > 0 && ov.Kind != "withinbig"
		var deflated []byte
		if overCompressed {
			// an incompressible-looking payload in stored blocks: long enough to
			// fill every frame before the crossing frame, never finished
			plain := fill(int(L)+64, 'C')
			deflated = wsref.DeflateMessage(plain, []wsref.Seg{{Kind: "stored", Len: len(plain), Block: 7}}, false, 0)
			overDelivered = plain
		}
		for i, a := range ov.Pre {
			if sum+int64(a) > L {
				a = int(L - sum)
			}
			p := fill(a, byte('A'+i))
			if overCompressed {
				p = deflated[sum : sum+int64(a)]
			}
			op := byte(wsref.OpCont)
			if i == 0 {
				op = ov.Op
			}
			mk(wsref.Frame{Fin: false, Rsv1: overCompressed && i == 0, Opcode: op, Payload: p})
			if !overCompressed {
				overDelivered = append(overDelivered, p...)
			}
			sum += int64(a)
		}
		if overCompressed {
			o.Class("over_limit_message_compressed")
		}
		if ov.Ping {
			mk(wsref.Frame{Fin: true, Opcode: wsref.OpPing, Payload: []byte("inside-over")})
			pings = append(pings, []byte("inside-over"))
		}
		switch ov.Kind {
		case "withinbig":
			// 2^27 .. 2^39: also lengths that do not fit in 31 or 32 bits
			claim = uint64(1) << []uint{27, 28, 29, 31, 32, 39}[(len(ov.Pre)+ov.PartN)%6]
			withinBig = true
		case "double":
			claim = uint64(2 * L)
			if int64(claim)+sum <= L {
				claim = uint64(L + 1 - sum)
			}
		case "2g":
			claim = 1 << 31
			if int64(claim)+sum <= L {
				claim = uint64(L + 1 - sum)
			}
		case "max":
			claim = 1<<63 - 1
			overflow = sum > 0
		case "topbit":
			claim = 1<<63 | 77
			topbit = true
		default:
			claim = uint64(L + 1 - sum)
		}
		op := byte(wsref.OpCont)
		if len(ov.Pre) == 0 {
			op = ov.Op
		}
		present := 0
		if withinBig && ov.Present == "all" {
			ov.Present = "part"
		}
		switch ov.Present {
		case "all":
			if !topbit && claim <= 4096 {
				present = int(claim)
			}
		case "part":
			present = ov.PartN
			if !topbit && uint64(present) >= claim {
				present = int(claim) - 1
			}
		}
		cl := claim
		f := wsref.Frame{Fin: true, Opcode: op, Payload: fill(present, 'Z'), Claim: &cl}
		mk(f)
		if ov.Present == "all" && present == int(claim) {
			// a conformant message after it must never be delivered
			mk(wsref.Frame{Fin: true, Opcode: wsref.OpText, Payload: []byte("after-over")})
		}
		received = len(wire)
	}

	tr := xport.NewScriptConn(nil, nil)
	conn, err := NewConn(c.R, tr, nil)
	if err != nil {
		return err
	}
	conn.SetReadLimit(L)
	tr.SetInput(wire, c.Chunks)
	tr.EndErr = xport.ErrInjected
	if c.EOFWith {
		// the stream ends the way a TLS connection may: last bytes and io.EOF in
		// one Read (an error of another kind together with the last bytes is
		// C05's subject)
		tr.EOFWithData, tr.EndErr = true, nil
	}
	h := &handlerLog{failAt: -1}
	if c.ReLimit && (c.Over == nil || c.Over.Kind != "withinbig") {
		h.onPing = func() { conn.SetReadLimit(L) }
		o.ClassIf(len(pings) > 0 || (c.Over != nil && c.Over.Ping), "limit_set_again_from_ping_handler")
	}
	if c.StaleWriteDeadline {
		conn.SetWriteDeadline(time.Now().Add(-time.Hour))
		o.Class("stale_write_deadline")
	}
	h.install(conn)
	switch c.WriteSide {
	case 1:
		conn.WriteControl(websocket.CloseMessage, websocket.FormatCloseMessage(1001, ""), time.Time{})
		tr.ResetLog()
		o.Class("application_close_sent_first")
	case 2:
		tr.SetWriteFault(&xport.WriteFault{K: 0, Kind: xport.FaultError})
		o.Class("write_side_dead")
	}

	readStart06 := time.Now()
	lens := make([]int, len(model.Msgs))
	for i, m := range model.Msgs {
		lens[i] = len(m.Payload)
	}
	nW := len(model.Msgs)
	rt := &RTrace{}
	if nW > 0 {
		rt = RunRead(conn, c.Reads, nW, lens, 0)
	}
	n, err := compareRead(model.Msgs, rt, c.Reads)
	if err != nil {
		return fmt.Errorf("within-limit message (limit %d): %v", L, err)
	}
	if n != nW || rt.Final != nil {
		idx := n
		wl := -1
		if idx < nW {
			wl = model.Msgs[idx].WireLen
		}
		return fmt.Errorf("within-limit message %d (wire payload %d <= limit %d) could not be read: %d of %d delivered, error: %v", idx, wl, L, n, nW, rt.Final)
	}

	// Now the over-limit message (or the end of the stream).
	if c.Over == nil {
		_, _, err := conn.NextReader()
		if err == nil {
			return errors.New("a message was delivered after the end of the stream")
		}
		if errors.Is(err, websocket.ErrReadLimit) {
			return fmt.Errorf("ErrReadLimit reported although every message was within the limit %d", L)
		}
		classifyLimit(c, model, o, false, false)
		if c.WriteSide != 0 {
			if len(tr.Wrote) != 0 {
				return fmt.Errorf("%d bytes were written although the write side was finished before the reads began", len(tr.Wrote))
			}
			return nil
		}
		return checkWriteBack(tr.Wrote, c.R, pings, -1, false)
	}
	if withinBig {
		conn.SetReadLimit(1 << 40)
	}
	before := heapAllocs()
	var got []byte
	var rerr error
	var buf [512]byte
	var mt int
	var r io.Reader
	if c.Over.ReadMsg {
		var p []byte
		mt, p, err = conn.ReadMessage()
		got, rerr = p, err
		if err == nil {
			rerr = io.EOF
		}
		if mt == websocket.TextMessage || mt == websocket.BinaryMessage {
			err = nil // NextReader itself succeeded
		}
	} else if mt, r, err = conn.NextReader(); err != nil {
		rerr = err
	} else if c.OverAbandon >= 0 && !withinBig && (claim > uint64(L) || topbit) {
		// (only when the crossing frame alone exceeds L: the library restarts
		// its count for what it skips on the application's behalf, and the
		// statement speaks about messages that are read)
		// read a little, then move on: skipping the rest must hit the limit
		part := make([]byte, c.OverAbandon)
		k, e := io.ReadFull(r, part)
		got = part[:k]
		if e != nil && e != io.ErrUnexpectedEOF && e != io.EOF {
			rerr = e
		} else if e == io.EOF || e == io.ErrUnexpectedEOF {
			rerr = io.EOF
		} else {
			_, _, nerr := conn.NextReader()
			if nerr == nil {
				return fmt.Errorf("limit %d: the application abandoned the over-limit message after %d bytes and NextReader delivered another message: the frames skipped on its behalf (claims %v+%d) are not held to the limit", L, k, c.Over.Pre, claim)
			}
			rerr = nerr
			o.Class("over_limit_message_abandoned")
		}
	} else {
		for {
			k, e := r.Read(buf[:])
			got = append(got, buf[:k]...)
			if e != nil {
				rerr = e
				// the reader has failed: further Reads of it deliver nothing
				for j := 0; j < 3; j++ {
					if k2, e2 := r.Read(buf[:]); k2 != 0 || e2 == nil || e2 == io.EOF {
						return fmt.Errorf("limit %d: the reader of the over-limit message failed with %v; read again it returned %d bytes and error %v - the refused payload is handed out after all", L, e, k2, e2)
					}
				}
				break
			}
			if cap := min(L, 1<<20); len(got) > len(overDelivered)+int(cap)+8192 {
				rerr = errors.New("harness: runaway read")
				break
			}
		}
	}
	var after []error
	for i := 0; i < 3; i++ {
		if i == 1 {
			conn.SetReadDeadline(time.Now().Add(time.Hour)) // a retrying application
		}
		_, _, e := conn.NextReader()
		after = append(after, e)
	}
	allocated := heapAllocs() - before
	if err := checkReplyDeadlines(tr.Log, 0, readStart06); err != nil {
		return err
	}
	if withinBig {
		if rerr == nil || rerr == io.EOF {
			return fmt.Errorf("a message whose frame claims %d bytes but delivers only a few was reported complete (%d bytes)", claim, len(got))
		}
		if errors.Is(rerr, websocket.ErrReadLimit) {
			return fmt.Errorf("ErrReadLimit for a %d-byte claim under a limit of 2^40", claim)
		}
		if bound := uint64(8<<20) + 8*uint64(received); allocated > bound {
			return fmt.Errorf("%d bytes allocated while receiving %d wire bytes: memory depends on the length the frame header claims (%d; read via ReadMessage=%v)", allocated, received, claim, c.Over.ReadMsg)
		}
		o.Class("over_withinbig")
		o.NonTrivial("")
		return nil
	}
	if len(c.Over.Pre) == 0 && err == nil {
		return fmt.Errorf("limit %d: the first frame claims %d bytes (> limit) but NextReader returned a message of type %d instead of refusing it at the header", L, claim, mt)
	}
	if rerr == io.EOF {
		return fmt.Errorf("limit %d: a message exceeding the limit was read in full (%d bytes, io.EOF)", L, len(got))
	}
	if !errors.Is(rerr, websocket.ErrReadLimit) {
		return fmt.Errorf("limit %d: reading a message whose frames claim %v+%d bytes failed with %v, want ErrReadLimit (crossing frame payload present: %s)", L, c.Over.Pre, claim, rerr, c.Over.Present)
	}
	if int64(len(got)) > L {
		return fmt.Errorf("limit %d: %d bytes of an over-limit message were delivered", L, len(got))
	}
	if len(got) > len(overDelivered) || !bytes.Equal(got, overDelivered[:len(got)]) {
		return fmt.Errorf("limit %d: bytes delivered for the over-limit message (%s) are not a prefix of the frames before the crossing frame — payload of the refused frame was read", L, abbrev(got))
	}
	for i, e := range after {
		if e == nil {
			return fmt.Errorf("read %d after ErrReadLimit succeeded", i)
		}
	}
	if c.WriteSide != 0 {
		// nothing can be written back (C09 / C10 judge that nothing is)
		if len(tr.Wrote) != 0 {
			return fmt.Errorf("limit %d: %d bytes were written although the write side was finished before the reads began", L, len(tr.Wrote))
		}
	} else if err := checkWriteBack(tr.Wrote, c.R, pings, 1009, overflow || topbit); err != nil {
		return fmt.Errorf("limit %d, claimed %d: %v", L, claim, err)
	}
	// memory: must not scale with the claimed length
	bound := uint64(8<<20) + 8*uint64(received) // generous: pooled flate readers etc. are allocated lazily
	if allocated > bound {
		return fmt.Errorf("limit %d: %d bytes allocated while receiving %d wire bytes (frame header claimed %d)", L, allocated, received, claim)
	}
	classifyLimit(c, model, o, overflow, topbit)
	return nil
}

func classifyLimit(c LimitCase, model *Model, o *Obs, overflow, topbit bool) {
	L := int(c.L)
	predAbandoned := false
	nt := false
	for i, m := range model.Msgs {
		st := c.Reads[i%len(c.Reads)]
		o.ClassIf(m.Compressed && len(m.Payload) > L, "compressed_within_limit_inflates_past_L")
		edge := m.WireLen == L || m.WireLen == L-1
		o.ClassIf(edge, "within_at_L_or_L-1")
		if edge && predAbandoned {
			nt = true
			o.Class("edge_after_abandoned_predecessor")
		}
		if st.Abandon >= 0 && m.NFrames > 1 {
			predAbandoned = true
		}
		o.ClassIf(st.Abandon == 0, "pred_unread")
		o.ClassIf(st.Abandon > 0, "pred_partial")
	}
	if c.Over != nil {
		o.Class("over_" + c.Over.Kind)
		o.Class("over_present_" + c.Over.Present)
		o.Class(fmt.Sprintf("over_cross_at_frame_%d", len(c.Over.Pre)))
		if predAbandoned || overflow || topbit || c.Over.Kind == "plus1" {
			nt = true
		}
		o.ClassIf(overflow, "sum_overflow")
	}
	if nt {
		o.NonTrivial("")
	}
}
