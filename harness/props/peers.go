package props

import (
	"bufio"
	"crypto/ecdsa"
	"crypto/elliptic"
	"crypto/rand"
	"crypto/tls"
	"crypto/x509"
	"crypto/x509/pkix"
	"encoding/binary"
	"fmt"
	"io"
	"math/big"
	"net"
	"net/http"
	"strings"
	"sync"
	"time"

	"verifharness/wsref"
	"verifharness/xport"
)

// ---------------------------------------------------------------- certificates

type testPKI struct {
	pool      *x509.CertPool // trusts the harness CA only
	valid     tls.Certificate
	otherHost tls.Certificate
	untrusted tls.Certificate
	proxy     tls.Certificate
}

var (
	pkiOnce sync.Once
	pki     *testPKI
)

func mkCert(parent *x509.Certificate, parentKey *ecdsa.PrivateKey, isCA bool, cn string, dns []string, ips []net.IP, serial int64) (*x509.Certificate, *ecdsa.PrivateKey, []byte) {
	key, err := ecdsa.GenerateKey(elliptic.P256(), rand.Reader)
	if err != nil {
		panic(err)
	}
	tmpl := &x509.Certificate{
		SerialNumber: big.NewInt(serial), Subject: pkix.Name{CommonName: cn},
		// valid from 1990 to 2100 so that the fake clock of synctest bubbles (year 2000) is inside
		NotBefore: time.Date(1990, 1, 1, 0, 0, 0, 0, time.UTC), NotAfter: time.Date(2100, 1, 1, 0, 0, 0, 0, time.UTC),
		KeyUsage: x509.KeyUsageDigitalSignature, ExtKeyUsage: []x509.ExtKeyUsage{x509.ExtKeyUsageServerAuth},
		DNSNames: dns, IPAddresses: ips, BasicConstraintsValid: true, IsCA: isCA,
	}
	if isCA {
		tmpl.KeyUsage |= x509.KeyUsageCertSign
	}
	p, pk := tmpl, key
	if parent != nil {
		p, pk = parent, parentKey
	}
	der, err := x509.CreateCertificate(rand.Reader, tmpl, p, &key.PublicKey, pk)
	if err != nil {
		panic(err)
	}
	c, _ := x509.ParseCertificate(der)
	return c, key, der
}

func getPKI() *testPKI {
	pkiOnce.Do(func() {
		ca, caKey, _ := mkCert(nil, nil, true, "verif harness CA", nil, nil, 1)
		evil, evilKey, _ := mkCert(nil, nil, true, "untrusted CA", nil, nil, 2)
		leaf := func(parent *x509.Certificate, pk *ecdsa.PrivateKey, dns []string, ips []net.IP, serial int64) tls.Certificate {
			_, k, der := mkCert(parent, pk, false, dns[0], dns, ips, serial)
			return tls.Certificate{Certificate: [][]byte{der}, PrivateKey: k}
		}
		ips := []net.IP{net.ParseIP("127.0.0.1"), net.ParseIP("::1"), net.ParseIP("2001:db8::1"), net.ParseIP("10.1.2.3")}
		p := &testPKI{pool: x509.NewCertPool()}
		p.pool.AddCert(ca)
		p.valid = leaf(ca, caKey, []string{"backend.test", "b2.backend.test", "localhost"}, ips, 10)
		p.otherHost = leaf(ca, caKey, []string{"other.test"}, []net.IP{net.ParseIP("192.0.2.1")}, 11)
		p.untrusted = leaf(evil, evilKey, []string{"backend.test", "b2.backend.test", "localhost"}, ips, 12)
		p.proxy = leaf(ca, caKey, []string{"proxy.test"}, []net.IP{net.ParseIP("127.0.0.1")}, 13)
		pki = p
	})
	return pki
}

// ---------------------------------------------------------------- peer

// PeerSpec says what the in-process peer behind a dialed connection does.
type PeerSpec struct {
	ProxyKind string `json:"proxy_kind,omitempty"` // "" | http | https | socks5
	ProxyTLS  bool   `json:"proxy_tls,omitempty"`  // the peer speaks TLS as the proxy first
	// ProxyReply is the raw CONNECT reply (default "HTTP/1.1 200 Connection established\r\n\r\n").
	ProxyReply string `json:"proxy_reply,omitempty"`
	BackendTLS bool   `json:"backend_tls,omitempty"`
	// BackendALPN: the backend's TLS server selects this application protocol
	// if the client offers it.
	BackendALPN string `json:"backend_alpn,omitempty"`
	// BackendCert: valid | otherhost | untrusted
	BackendCert string `json:"backend_cert,omitempty"`
	// Stall: the peer stops responding (keeps the connection open, reads
	// nothing more, writes nothing) when it reaches this stage:
	// accept | proxy-reply | socks-reply | backend-tls | ws-reply | ws-reply-head | ws-error-body
	Stall string `json:"stall,omitempty"`
	// SocksAuth: the SOCKS5 server demands username/password when offered.
	BadWSReply bool `json:"bad_ws_reply,omitempty"`
	// BadExtReply: a 101 that is valid except that it announces
	// permessage-deflate without the no_context_takeover parameters.
	BadExtReply bool `json:"bad_ext_reply,omitempty"`
	// ReplyHeader: a further header line of the (otherwise valid) 101.
	ReplyHeader string `json:"reply_header,omitempty"`
}

// PeerLog is what the peer observed.
type PeerLog struct {
	mu                sync.Mutex
	ConnectReqs       int
	ConnectTarget     string
	ConnectHost       string
	ProxyAuth         []string
	SocksReqs         int
	SocksTarget       string
	SocksMethods      []byte
	SocksUser         string
	SocksPass         string
	SocksAuthUsed     bool
	ProxySNI          string
	BackendSNI        string
	BackendTLSDone    bool
	UpgradeReqs       int
	UpgradeTarget     string // request-target of the upgrade request as the backend saw it
	UpgradeInsideTLS  bool
	UpgradeHost       string
	BytesAfterRefusal int
	Errors            []string
	Echoed            int
	done              chan struct{}
}

func (l *PeerLog) errf(format string, a ...interface{}) {
	l.mu.Lock()
	l.Errors = append(l.Errors, fmt.Sprintf(format, a...))
	l.mu.Unlock()
}

// brConn serves bytes already buffered in br before reading from the conn.
type brConn struct {
	net.Conn
	br *bufio.Reader
}

func (b *brConn) Read(p []byte) (int, error) { return b.br.Read(p) }

// startPeer creates a pipe whose far end is driven by a peer goroutine.
func startPeer(spec PeerSpec) (*xport.PipeEnd, *PeerLog) {
	client, peer := xport.NewPipe()
	log := &PeerLog{done: make(chan struct{})}
	go func() {
		defer close(log.done)
		defer peer.Close()
		runPeer(peer, spec, log)
	}()
	return client, log
}

// wait waits for the peer goroutine to finish (after the client end was closed).
func (l *PeerLog) wait() {
	select {
	case <-l.done:
	case <-time.After(20 * time.Second):
	}
}

func stall(c net.Conn) {
	// keep the connection open and silent until the other side closes it
	buf := make([]byte, 512)
	for {
		if _, err := c.Read(buf); err != nil {
			return
		}
	}
}

func runPeer(raw net.Conn, spec PeerSpec, log *PeerLog) {
	p := getPKI()
	var c net.Conn = raw
	if spec.Stall == "accept" {
		stall(c)
		return
	}
	if spec.ProxyTLS {
		tc := tls.Server(c, &tls.Config{Certificates: []tls.Certificate{p.proxy}, GetConfigForClient: func(h *tls.ClientHelloInfo) (*tls.Config, error) {
			log.mu.Lock()
			log.ProxySNI = h.ServerName
			log.mu.Unlock()
			return nil, nil
		}})
		if err := tc.Handshake(); err != nil {
			log.errf("proxy TLS handshake: %v", err)
			return
		}
		c = tc
	}
	switch spec.ProxyKind {
	case "http", "https":
		br := bufio.NewReader(c)
		req, err := http.ReadRequest(br)
		if err != nil {
			log.errf("proxy: reading CONNECT: %v", err)
			return
		}
		log.mu.Lock()
		log.ConnectReqs++
		if req.Method != "CONNECT" {
			log.Errors = append(log.Errors, "proxy: first request is "+req.Method+", not CONNECT")
		}
		log.ConnectTarget = req.RequestURI
		log.ConnectHost = req.Host
		log.ProxyAuth = req.Header.Values("Proxy-Authorization")
		log.mu.Unlock()
		if spec.Stall == "proxy-reply" {
			stall(c)
			return
		}
		reply := spec.ProxyReply
		if reply == "" {
			reply = "HTTP/1.1 200 Connection established\r\n\r\n"
		}
		if _, err := c.Write([]byte(reply)); err != nil {
			return
		}
		if !strings.HasPrefix(reply, "HTTP/1.1 200") && !strings.HasPrefix(reply, "HTTP/1.0 200") {
			// refused: whatever still arrives is a violation of "the dial is aborted"
			// (the first bytes are enough: hang up so that the client cannot wait for an answer)
			tmp := make([]byte, 4096)
			n, _ := br.Read(tmp)
			log.mu.Lock()
			log.BytesAfterRefusal = n
			log.mu.Unlock()
			return
		}
		c = &brConn{Conn: c, br: br}
	case "socks5":
		br := bufio.NewReader(c)
		hdr := make([]byte, 2)
		if _, err := io.ReadFull(br, hdr); err != nil || hdr[0] != 5 {
			log.errf("socks5: bad greeting %x %v", hdr, err)
			return
		}
		methods := make([]byte, hdr[1])
		if _, err := io.ReadFull(br, methods); err != nil {
			return
		}
		log.mu.Lock()
		log.SocksMethods = methods
		log.mu.Unlock()
		method := byte(0xff)
		for _, m := range methods {
			if m == 2 {
				method = 2
			}
		}
		if method == 0xff {
			for _, m := range methods {
				if m == 0 {
					method = 0
				}
			}
		}
		c.Write([]byte{5, method})
		if method == 0xff {
			return
		}
		if method == 2 {
			h := make([]byte, 2)
			if _, err := io.ReadFull(br, h); err != nil || h[0] != 1 {
				log.errf("socks5: bad auth header %x", h)
				return
			}
			u := make([]byte, h[1])
			io.ReadFull(br, u)
			pl := make([]byte, 1)
			io.ReadFull(br, pl)
			pw := make([]byte, pl[0])
			io.ReadFull(br, pw)
			log.mu.Lock()
			log.SocksAuthUsed, log.SocksUser, log.SocksPass = true, string(u), string(pw)
			log.mu.Unlock()
			c.Write([]byte{1, 0})
		}
		rq := make([]byte, 4)
		if _, err := io.ReadFull(br, rq); err != nil || rq[0] != 5 {
			log.errf("socks5: bad request %x %v", rq, err)
			return
		}
		var host string
		switch rq[3] {
		case 1:
			a := make([]byte, 4)
			io.ReadFull(br, a)
			host = net.IP(a).String()
		case 4:
			a := make([]byte, 16)
			io.ReadFull(br, a)
			host = "[" + net.IP(a).String() + "]"
		case 3:
			l := make([]byte, 1)
			io.ReadFull(br, l)
			a := make([]byte, l[0])
			io.ReadFull(br, a)
			host = string(a)
		}
		pb := make([]byte, 2)
		io.ReadFull(br, pb)
		log.mu.Lock()
		log.SocksReqs++
		if rq[1] != 1 {
			log.Errors = append(log.Errors, fmt.Sprintf("socks5: command %d, not CONNECT", rq[1]))
		}
		log.SocksTarget = fmt.Sprintf("%s:%d", host, binary.BigEndian.Uint16(pb))
		log.mu.Unlock()
		if spec.Stall == "socks-reply" {
			stall(c)
			return
		}
		c.Write([]byte{5, 0, 0, 1, 0, 0, 0, 0, 0, 0})
		c = &brConn{Conn: c, br: br}
	}
	if spec.BackendTLS {
		if spec.Stall == "backend-tls" {
			stall(c)
			return
		}
		cert := p.valid
		switch spec.BackendCert {
		case "otherhost":
			cert = p.otherHost
		case "untrusted":
			cert = p.untrusted
		}
		var alpn []string
		if spec.BackendALPN != "" {
			alpn = []string{spec.BackendALPN}
		}
		tc := tls.Server(c, &tls.Config{Certificates: []tls.Certificate{cert}, NextProtos: alpn, GetConfigForClient: func(h *tls.ClientHelloInfo) (*tls.Config, error) {
			log.mu.Lock()
			log.BackendSNI = h.ServerName
			log.mu.Unlock()
			return nil, nil
		}})
		if err := tc.Handshake(); err != nil {
			log.errf("backend TLS handshake: %v", err)
			return
		}
		log.mu.Lock()
		log.BackendTLSDone = true
		log.mu.Unlock()
		c = tc
	}
	// WebSocket backend
	br := bufio.NewReader(c)
	req, err := http.ReadRequest(br)
	if err != nil {
		if err != io.EOF {
			log.errf("backend: reading upgrade request: %v", err)
		}
		return
	}
	log.mu.Lock()
	log.UpgradeReqs++
	log.UpgradeInsideTLS = spec.BackendTLS
	log.UpgradeHost = req.Host
	log.UpgradeTarget = req.RequestURI
	log.mu.Unlock()
	if spec.Stall == "ws-reply" {
		stall(c)
		return
	}
	if spec.Stall == "ws-error-body" || spec.Stall == "ws-reply-head" {
		// a refusal that announces more body than it delivers, or half a
		// status line, then silence
		if spec.Stall == "ws-error-body" {
			c.Write([]byte("HTTP/1.1 403 Forbidden\r\nContent-Length: 100\r\n\r\ndenied!"))
		} else {
			c.Write([]byte("HTTP/1.1 101 Switching Proto"))
		}
		stall(c)
		return
	}
	if spec.BadWSReply {
		c.Write([]byte("HTTP/1.1 403 Forbidden\r\nContent-Length: 0\r\n\r\n"))
		return
	}
	resp := "HTTP/1.1 101 Switching Protocols\r\nUpgrade: websocket\r\nConnection: Upgrade\r\nSec-WebSocket-Accept: " + wsref.AcceptKey(req.Header.Get("Sec-Websocket-Key")) + "\r\n\r\n"
	if spec.BadExtReply {
		resp = strings.TrimSuffix(resp, "\r\n") + "Sec-WebSocket-Extensions: permessage-deflate; server_no_context_takeover\r\n\r\n"
	}
	if spec.ReplyHeader != "" {
		resp = strings.TrimSuffix(resp, "\r\n") + spec.ReplyHeader + "\r\n\r\n"
	}
	if _, err := c.Write([]byte(resp)); err != nil {
		return
	}
	// echo frames with the independent codec
	var buf []byte
	tmp := make([]byte, 4096)
	for {
		n, err := br.Read(tmp)
		buf = append(buf, tmp[:n]...)
		frames, consumed, derr := wsref.DecodeFrames(buf, true)
		if derr != nil {
			log.errf("backend: client frames malformed: %v", derr)
			return
		}
		buf = buf[consumed:]
		for _, f := range frames {
			if f.Opcode == wsref.OpClose {
				c.Write(wsref.AppendFrame(nil, wsref.Frame{Fin: true, Opcode: wsref.OpClose, Payload: f.Payload}))
				return
			}
			c.Write(wsref.AppendFrame(nil, wsref.Frame{Fin: f.Fin, Opcode: f.Opcode, Payload: f.Payload}))
			log.mu.Lock()
			log.Echoed++
			log.mu.Unlock()
		}
		if err != nil {
			return
		}
	}
}
