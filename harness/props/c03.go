package props

import (
	"bytes"
	"errors"
	"fmt"

	"github.com/gorilla/websocket"
	"pgregory.net/rapid"

	"verifharness/wsref"
	"verifharness/xport"
)

// ReadCase is a conformant peer stream fed to a connection under test, read
// by a generated read program.
type ReadCase struct {
	R      ConnCfg `json:"reader"`
	S      Stream  `json:"stream"`
	Chunks []int   `json:"chunks,omitempty"`
	Reads  []RStep `json:"reads,omitempty"`
	// EOFWith: the transport returns its last bytes together with io.EOF.
	EOFWith bool `json:"eof_with,omitempty"`
	// WriteDead: every write to the transport fails (with a plain error or a
	// timeout) from the start, so no automatic reply gets out: reading is
	// unaffected.  0 no, 1 plain error, 2 timeout.
	WriteDead int `json:"write_dead,omitempty"`
	// WriteCompOff: the application has switched its own write compression off
	// (or set a level); that is a matter of what it sends, not of what it accepts.
	WriteCompOff bool `json:"write_comp_off,omitempty"`
	// Sibling: before this connection, another one of the same configuration was
	// used and closed twice (explicit Close plus a deferred one); and while this
	// connection is read a sibling of the same configuration is alive with a
	// stream of its own. Each delivers its own messages.
	Sibling bool `json:"sibling,omitempty"`
}

func genReaderCfg(t *rapid.T) ConnCfg {
	var c ConnCfg
	c.Server = rapid.Bool().Draw(t, "reader_is_server")
	c.ReadBuf = genBuf(t, "rbuf")
	c.WriteBuf = rapid.SampledFrom([]int{0, 0, 1, 125, 512}).Draw(t, "wbuf")
	c.Compress = rapid.Bool().Draw(t, "compress")
	if c.Server {
		c.HijackR = rapid.SampledFrom([]int{0, 0, 16, 200, 256, 257, 1024}).Draw(t, "hijack_r")
	}
	if !c.Compress {
		c.Declined = rapid.IntRange(0, 2).Draw(t, "offer_declined") == 0
	}
	return c
}

func genReadCase(t *rapid.T) ReadCase {
	var c ReadCase
	c.R = genReaderCfg(t)
	c.S = genStream(t, SGenOpts{MaxMsgs: 6, Compression: c.R.Compress, R: c.R.ReadBuf, AllowHuge: true})
	total := 0
	for _, m := range c.S.Msgs {
		total += m.Data.Len + 14*(len(m.Frags)+1)
	}
	c.Chunks = genChunks(t, "chunks", total)
	c.Reads = genReadProgram(t, c.R.ReadBuf, true, true)
	c.EOFWith = rapid.Bool().Draw(t, "eof_with_last_bytes")
	c.WriteDead = rapid.SampledFrom([]int{0, 0, 0, 0, 1, 2}).Draw(t, "write_dead")
	c.WriteCompOff = rapid.IntRange(0, 3).Draw(t, "write_comp_off") == 0
	c.Sibling = rapid.IntRange(0, 4).Draw(t, "sibling") == 0
	return c
}

// handlerLog records control-frame handler invocations together with the
// number of data bytes the application had received when they ran.
type handlerLog struct {
	Events []hEvent
	// prog, if set, is the application's read progress (see ReadProgress)
	prog *ReadProgress
	// custom: do not call through to the default handlers
	custom  bool
	failAt  int // handler error injected at this event index (-1 none)
	failErr error
	def     bool // call through to default handlers
	// onPing, if set, runs inside the ping handler (an application may call
	// connection methods from its handlers).
	onPing func()
	// reinstallAfter >= 0: the handler of that event installs a fresh set of
	// handlers (generation gen+1) before it returns.  Zero value of the
	// struct must mean "never": callers set -1 via newHandlerLog or leave
	// reinstall unset (see reinstall).
	reinstallAfter int
	reinstall      bool
	gen            int
	defPing        func(string) error
	defClose       func(int, string) error
}

type hEvent struct {
	Op      byte
	Payload string
	Code    int // close code for close events
	Req     int // ReadProgress at the time of the call (-2 if not tracked)
	Bytes   int
	Gen     int // generation of the handler set that saw the event
}

func (h *handlerLog) add(e hEvent) {
	e.Req, e.Bytes = -2, 0
	if h.prog != nil {
		e.Req, e.Bytes = h.prog.Req, h.prog.Bytes
	}
	h.Events = append(h.Events, e)
}

func (h *handlerLog) install(c *websocket.Conn) {
	if h.defPing == nil {
		h.defPing, h.defClose = c.PingHandler(), c.CloseHandler()
	}
	defPing, defClose := h.defPing, h.defClose
	gen := h.gen
	// after runs at the end of every handler: an application may replace its
	// handlers from inside a handler; the replacement serves the next frame
	after := func() {
		if h.reinstall && len(h.Events)-1 == h.reinstallAfter && gen == h.gen {
			h.gen++
			h.install(c)
		}
	}
	c.SetPingHandler(func(s string) error {
		h.add(hEvent{Op: wsref.OpPing, Payload: s, Gen: gen})
		defer after()
		if h.onPing != nil {
			h.onPing()
		}
		if h.failAt == len(h.Events)-1 {
			return h.failErr
		}
		if h.custom {
			return nil
		}
		return defPing(s)
	})
	c.SetPongHandler(func(s string) error {
		h.add(hEvent{Op: wsref.OpPong, Payload: s, Gen: gen})
		defer after()
		if h.failAt == len(h.Events)-1 {
			return h.failErr
		}
		return nil
	})
	c.SetCloseHandler(func(code int, text string) error {
		h.add(hEvent{Op: wsref.OpClose, Payload: text, Code: code, Gen: gen})
		defer after()
		if h.failAt == len(h.Events)-1 {
			return h.failErr
		}
		if h.custom {
			return nil
		}
		return defClose(code, text)
	})
}

// compareRead checks the messages an application obtained against the model,
// allowing abandoned messages (prefix).  It returns the number of model
// messages consumed.
func compareRead(model []MMsg, rt *RTrace, reads []RStep) (int, error) {
	di := 0
	for mi, m := range rt.Msgs {
		st := stepForMsg(reads, rt, mi)
		switch {
		case m.Joined > 0:
			if di+m.Joined > len(model) {
				return di, fmt.Errorf("read %d: join read past the last message of the stream", mi)
			}
			var want []byte
			for _, d := range model[di : di+m.Joined] {
				want = append(want, d.Payload...)
				want = append(want, st.Term...)
			}
			if m.Err != nil {
				return di, fmt.Errorf("read %d: JoinMessages over messages %d..%d failed after %d of %d bytes: %v", mi, di, di+m.Joined-1, len(m.Data), len(want), m.Err)
			}
			if !bytes.Equal(m.Data, want) {
				return di, fmt.Errorf("read %d: JoinMessages content differs at byte %d (got %d bytes, want %d)", mi, firstDiff(m.Data, want), len(m.Data), len(want))
			}
			di += m.Joined
		case m.Op == "json":
			if di >= len(model) {
				return di, fmt.Errorf("read %d: ReadJSON delivered a message but the stream has only %d", mi, len(model))
			}
			wv, werr := refJSON(model[di].Payload)
			if (werr == nil) != (m.JSONErr == nil) {
				return di, fmt.Errorf("read %d: ReadJSON on message %d returned error %v; reference decoder on the true payload: %v", mi, di, m.JSONErr, werr)
			}
			if werr == nil && !jsonEqual(wv, m.JSONVal) {
				return di, fmt.Errorf("read %d: ReadJSON value %#v differs from reference %#v", mi, m.JSONVal, wv)
			}
			di++
		default:
			if di >= len(model) {
				return di, fmt.Errorf("read %d: a message (type %d, %d bytes %s) was delivered but the stream encodes only %d messages", mi, m.MT, len(m.Data), abbrev(m.Data), len(model))
			}
			want := model[di]
			if m.MT != want.Type {
				return di, fmt.Errorf("read %d: message %d delivered with type %d, stream says %d", mi, di, m.MT, want.Type)
			}
			if m.Err != nil {
				return di, fmt.Errorf("read %d: reading message %d (%d bytes, %d frames, compressed=%v) failed after %d bytes: %v", mi, di, len(want.Payload), want.NFrames, want.Compressed, len(m.Data), m.Err)
			}
			if m.Complete {
				if !bytes.Equal(m.Data, want.Payload) {
					return di, fmt.Errorf("read %d: message %d (%d frames, compressed=%v): end of message signalled after %d bytes, payload has %d; first difference at byte %d (got %s want %s)", mi, di, want.NFrames, want.Compressed, len(m.Data), len(want.Payload), firstDiff(m.Data, want.Payload), abbrev(m.Data), abbrev(want.Payload))
				}
			} else {
				if len(m.Data) > len(want.Payload) || !bytes.Equal(m.Data, want.Payload[:len(m.Data)]) {
					return di, fmt.Errorf("read %d: message %d: the %d bytes read before abandoning are not a prefix of the payload (first difference at %d)", mi, di, len(m.Data), firstDiff(m.Data, want.Payload))
				}
			}
			di++
		}
	}
	return di, nil
}

func checkC03(c ReadCase, o *Obs) error {
	model := BuildStream(c.S, c.R.Server, c.R.Compress)
	if c.Sibling {
		trp := xport.NewScriptConn(nil, nil)
		pre, err := NewConn(c.R, trp, nil)
		if err != nil {
			return err
		}
		pre.Close()
		pre.Close()
	}
	tr := xport.NewScriptConn(nil, nil)
	conn, err := NewConn(c.R, tr, nil)
	if err != nil {
		return err
	}
	if c.Sibling {
		trs := xport.NewScriptConn(nil, nil)
		sib, err := NewConn(c.R, trs, nil)
		if err != nil {
			return err
		}
		want := []byte("message for the sibling connection")
		trs.SetInput(wsref.AppendFrame(nil, wsref.Frame{Fin: true, Opcode: wsref.OpBinary, Masked: c.R.Server, Key: [4]byte{9, 8, 7, 6}, Payload: want}), nil)
		defer func() {
			mt, got, err := sib.ReadMessage()
			if err != nil || mt != websocket.BinaryMessage || !bytes.Equal(got, want) {
				observe("a sibling connection of the same configuration, alive while this one was read, delivered type %d %q (%v) instead of its own message %q", mt, abbrev(got), err, want)
			}
		}()
		o.Class("sibling_connection_alive_after_a_double_close")
	}
	if c.WriteCompOff {
		conn.EnableWriteCompression(false)
		conn.SetCompressionLevel(9)
		o.ClassIf(c.R.Compress, "own_write_compression_off_while_reading_compressed")
	}
	tr.SetInput(model.Wire, c.Chunks)
	tr.EOFWithData = c.EOFWith
	// this application sets no read deadline: its reads may take as long as the
	// peer likes, whatever the library wrote in between (pongs, a close reply)
	tr.SlowPeer = true
	if c.WriteDead != 0 {
		kind := xport.FaultError
		if c.WriteDead == 2 {
			kind = xport.FaultTimeout
		}
		tr.SetWriteFault(&xport.WriteFault{K: 0, Kind: kind})
		o.ClassIf(len(model.Ctl) > 0 || model.Close != nil, "write_side_dead_with_control_frames")
	}
	h := &handlerLog{failAt: -1, def: true}
	h.install(conn)
	lens := make([]int, len(model.Msgs))
	for i, m := range model.Msgs {
		lens[i] = len(m.Payload)
	}
	rt := RunRead(conn, c.Reads, len(model.Msgs)+1, lens, 2)
	n, err := compareRead(model.Msgs, rt, c.Reads)
	if err != nil {
		return err
	}
	if tr.RDLExpired > 0 {
		return fmt.Errorf("a read deadline was armed on the transport although the application never set one (the library armed it while replying to a control frame?): with a peer that pauses before its next frame the read times out; %d of %d messages delivered, reader stopped with: %v", n, len(model.Msgs), rt.Final)
	}
	if n != len(model.Msgs) {
		return fmt.Errorf("only %d of the %d messages the stream encodes were delivered; reader stopped with: %v", n, len(model.Msgs), rt.Final)
	}
	if rt.Final == nil {
		return errors.New("after the last message the reader reported neither a message nor an error")
	}
	if rt.AfterData {
		return errors.New("a message was delivered after NextReader had returned an error")
	}
	if model.Close != nil {
		var ce *websocket.CloseError
		code, text := wsref.ParseCloseBody(model.CloseBody)
		if !errors.As(rt.Final, &ce) || ce.Code != code || ce.Text != text {
			return fmt.Errorf("stream ends with close (%d,%q) but the reader ended with: %v", code, text, rt.Final)
		}
	}
	// every control frame reached its handler exactly once, in wire order
	// (ordering relative to data is C08)
	want := len(model.Ctl)
	if model.Close != nil {
		want++
	}
	if len(h.Events) != want {
		return fmt.Errorf("%d control frames in the stream, handlers invoked %d times", want, len(h.Events))
	}
	for i, mc := range model.Ctl {
		if h.Events[i].Op != mc.Op || h.Events[i].Payload != string(mc.Payload) {
			return fmt.Errorf("control frame %d (op %d, %s): handler saw op %d payload %s", i, mc.Op, abbrev(mc.Payload), h.Events[i].Op, abbrev([]byte(h.Events[i].Payload)))
		}
	}
	classifyRead(c, model, o)
	return nil
}

func classifyRead(c ReadCase, model *Model, o *Obs) {
	multi, inside, comp, aband, split := false, false, false, false, len(c.Chunks) > 0
	for _, m := range model.Msgs {
		if m.NFrames >= 2 {
			multi = true
		}
		if m.Compressed {
			comp = true
		}
		for _, l := range m.FrameLens {
			switch {
			case l == 0:
				o.Class("frame_empty")
			case l <= 125:
				o.Class("frame_7bit")
			case l < 65536:
				o.Class("frame_16bit")
			default:
				o.Class("frame_64bit")
			}
		}
	}
	for _, mc := range model.Ctl {
		if mc.Inside {
			inside = true
		}
	}
	for _, r := range c.Reads {
		if r.Abandon >= 0 {
			aband = true
		}
		o.Class("read_" + r.Op)
	}
	for _, sm := range c.S.Msgs {
		if sm.Compressed && c.R.Compress {
			if sm.BFinal {
				o.Class("deflate_bfinal")
			}
			for _, s := range sm.Segs {
				o.Class("deflate_" + s.Kind)
			}
		}
		o.Class("key_" + sm.KeyMode)
	}
	o.ClassIf(multi, "msg_multi_frame")
	o.ClassIf(inside, "control_between_fragments")
	o.ClassIf(comp, "compressed_msg")
	o.ClassIf(aband, "abandoning_reads")
	o.ClassIf(split, "chunked_transport")
	o.ClassIf(c.EOFWith, "eof_with_last_bytes")
	o.ClassIf(model.Close != nil, "close_frame")
	o.Class("reader_" + c.R.Role())
	if len(model.Msgs) > 0 && (multi || inside || comp || aband || split) {
		o.NonTrivial("")
	}
}

// MaskSweepCase is one element of the exhaustive sweep of mask-position carry:
// a message of N bytes in two fragments (A, N-A), read with a fixed read size.
type MaskSweepCase struct {
	Server bool `json:"server"`
	N      int  `json:"n"`
	A      int  `json:"a"`
	Read   int  `json:"read"`
	Chunk  int  `json:"chunk"`
	Ctl    bool `json:"ctl"` // a ping between the fragments
}

func enumMaskSweep(yield func(MaskSweepCase) bool) {
	idx := 0
	n, k := shardCount(), shardIndex()
	for _, server := range []bool{true, false} {
		for N := 0; N <= 40; N++ {
			for A := 0; A <= N; A++ {
				for _, rd := range []int{1, 2, 3, 4, 5, 7, 8, 9, 16, 17, 64} {
					for _, chunk := range []int{0, 1, 3} {
						for _, ctl := range []bool{false, true} {
							idx++
							if (idx-1)%n != k {
								continue
							}
							if !yield(MaskSweepCase{Server: server, N: N, A: A, Read: rd, Chunk: chunk, Ctl: ctl}) {
								return
							}
						}
					}
				}
			}
		}
	}
}

func checkMaskSweep(c MaskSweepCase, o *Obs) error {
	m := SMsg{Op: 2, Data: Payload{Len: c.N, Kind: "counter", Seed: 3}, Frags: []int{c.A}, KeyMode: "rand"}
	if c.Ctl {
		m.Ctl = []SCtl{{At: 1, Op: 9, Data: Payload{Len: 5, Kind: "counter"}}}
	}
	rc := ReadCase{R: ConnCfg{Server: c.Server}, S: Stream{Msgs: []SMsg{m}, KeySeed: uint32(c.N*131 + c.A)}, Reads: []RStep{{Op: "reader", Sizes: []int{c.Read}, Abandon: -1}}}
	if c.Chunk > 0 {
		for i := 0; i < 80; i++ {
			rc.Chunks = append(rc.Chunks, c.Chunk)
		}
	}
	var inner Obs
	if err := checkC03(rc, &inner); err != nil {
		return err
	}
	o.Class("sweep_cell")
	o.NonTrivial("")
	return nil
}
