package props

import (
	"encoding/json"
	"errors"
	"fmt"
	"io"
	"math"
	"time"

	"github.com/gorilla/websocket"
	"pgregory.net/rapid"

	"verifharness/wsref"
	"verifharness/xport"
)

// WPart is one call made on an open message writer.
type WPart struct {
	// API: write | wstring | readfrom | copy | control
	API string `json:"api"`
	// Len is the number of message payload bytes this part supplies.
	Len int `json:"len,omitempty"`
	// Src is the chunking of the source reader (readfrom / copy).
	Src []int `json:"src,omitempty"`
	// EOFWith makes the source return its last bytes together with io.EOF.
	EOFWith bool `json:"eof_with,omitempty"`
	// SrcErr (readfrom / copy): after its data the source fails with an error
	// of its own instead of io.EOF.  That is the application's failure, not
	// the connection's: the call reports it, the message stays open.
	SrcErr bool `json:"src_err,omitempty"`
	// For API control: a WriteControl issued while the writer is open.
	MT   int     `json:"mt,omitempty"`
	Data Payload `json:"data,omitempty"`
}

// WStep is one step of a write program.
type WStep struct {
	// Op: msg | writer | json | prepared | control | enablecomp | level | deadline | bad
	Op       string  `json:"op"`
	MT       int     `json:"mt,omitempty"`
	Data     Payload `json:"data,omitempty"`
	Parts    []WPart `json:"parts,omitempty"`
	Implicit bool    `json:"implicit,omitempty"` // writer left open; closed by the next NextWriter
	// After: what the application does with the writer after Close (legal but
	// pointless calls that must fail and write nothing): "" | close | write | both
	After string `json:"after,omitempty"`
	On    bool   `json:"on,omitempty"`
	Level int    `json:"level,omitempty"`
	JSON  string `json:"json,omitempty"`
	// Bad: type | bigctl | fragctl ; Via: message | writer | control | prepared
	Bad string `json:"bad,omitempty"`
	Via string `json:"via,omitempty"`
	// Deadline: for control: 0 = zero time, n>0 = now + n hours.  For op
	// deadline: 0 = zero, n>0 = base + n hours.
	Deadline int `json:"deadline,omitempty"`
	// DeadlineMs (op deadline, owned schedules on a fake clock): the write
	// deadline is that many milliseconds from now.
	DeadlineMs int `json:"deadline_ms,omitempty"`
}

// Call is one API call made by the executor.
type Call struct {
	Step, Part int
	API        string
	Err        error
	Bad        bool // the request was intentionally invalid
	// Transport bytes accepted / transport ops before and after the call.
	WroteBefore, WroteAfter int
	OpsBefore, OpsAfter     int
	WOpsBefore, WOpsAfter   int   // write-side transport operations (SetWriteDeadline/SetDeadline/Write)
	StartSeq, EndSeq        int64 // global event stamps (concurrent legs)
	Msg                     int   // index into Sent, -1 if none
	// Deadline is the deadline every frame written during this call must be
	// written under: the connection's write deadline at the time of the call,
	// or the argument of WriteControl.
	Deadline time.Time
}

// Sent is an API-level message the program asked the connection to send.
type Sent struct {
	MT          int
	Payload     []byte
	Step        int
	Control     bool
	StartEv     int  // index of the call that started the message
	EndEv       int  // index of the call that completed it (Close / WriteMessage / ...)
	MayCompress bool // compression negotiated && write compression enabled && data message, at start
	Level       int
	Prepared    bool
	Bad         bool
	// OptionalEmpty: a failed WriteJSON; the wire may carry an empty text message for it or nothing.
	OptionalEmpty bool
	// OnWire: (OptionalEmpty) the call did put bytes on the wire.
	OnWire bool
	// Reported: every call of the message returned nil (the API reported it sent).
	Reported bool
	// Started: the message's first call succeeded.
	Deadline time.Time // write deadline in force / WriteControl argument
}

// WTrace is the result of running a write program.
type WTrace struct {
	Calls []Call
	Sent  []Sent
	Base  time.Time
}

// unencodableJSON marks a WriteJSON step whose value cannot be encoded (NaN).
const unencodableJSON = "NaN"

// chunkSrc is an io.Reader that is deliberately not an io.WriterTo.
type chunkSrc struct {
	data    []byte
	chunks  []int
	i       int
	eofWith bool
	endErr  error // returned instead of io.EOF when set
}

var errSrcFailed = errors.New("harness: the application's source reader failed")

func (s *chunkSrc) Read(p []byte) (int, error) {
	if len(s.data) == 0 {
		if s.endErr != nil {
			return 0, s.endErr
		}
		return 0, io.EOF
	}
	n := len(p)
	if s.i < len(s.chunks) && s.chunks[s.i] > 0 && s.chunks[s.i] < n {
		n = s.chunks[s.i]
	}
	s.i++
	if n > len(s.data) {
		n = len(s.data)
	}
	copy(p, s.data[:n])
	s.data = s.data[n:]
	if len(s.data) == 0 && s.eofWith {
		if s.endErr != nil {
			return n, s.endErr
		}
		return n, io.EOF
	}
	return n, nil
}

type wexec struct {
	c          *websocket.Conn
	tr         *xport.ScriptConn
	tw         *WTrace
	compNeg    bool
	compOn     bool
	level      int
	deadline   time.Time
	open       io.WriteCloser
	lastClosed io.WriteCloser // writer of the most recent explicitly closed message
	openMsg    int
	stopOnErr  bool
	server     bool
	// gate, if set, is called before every API call (interleaved execution);
	// after is called after every API call with the trace entry.
	gate  func()
	after func(cl *Call)
	// holding is the executor's expectation of whether the connection holds
	// a write buffer right now (an open message writer that has not failed).
	holding bool
	ctlDl   *time.Time // deadline argument of the WriteControl about to be called
}

func (x *wexec) call(step, part int, api string, bad bool, msg int, f func() error) error {
	if x.gate != nil {
		x.gate()
	}
	var wb, ob, wo int
	if x.tr != nil {
		wb, ob, wo = len(x.tr.Wrote), len(x.tr.Log), x.tr.WriteOps()
	}
	startSeq := xport.Seq.Add(1)
	dl := x.deadline
	if x.ctlDl != nil {
		dl = *x.ctlDl
		x.ctlDl = nil
	}
	err := f()
	cl := Call{Step: step, Part: part, API: api, Err: err, Bad: bad, WroteBefore: wb, OpsBefore: ob, WOpsBefore: wo, Msg: msg, Deadline: dl, StartSeq: startSeq, EndSeq: xport.Seq.Add(1)}
	if x.tr != nil {
		cl.WroteAfter, cl.OpsAfter, cl.WOpsAfter = len(x.tr.Wrote), len(x.tr.Log), x.tr.WriteOps()
	}
	x.tw.Calls = append(x.tw.Calls, cl)
	if msg >= 0 && err != nil {
		x.tw.Sent[msg].Reported = false
	}
	switch api {
	case "NextWriter":
		x.holding = err == nil
	case "Write", "WriteString", "ReadFrom", "Copy":
		if err != nil {
			x.holding = false
		}
	case "Close", "WriteMessage", "WriteJSON":
		x.holding = false
	}
	if x.after != nil {
		x.after(&x.tw.Calls[len(x.tw.Calls)-1])
	}
	return err
}

func (x *wexec) newSent(mt int, payload []byte, step int, bad bool) int {
	ctl := mt == websocket.CloseMessage || mt == websocket.PingMessage || mt == websocket.PongMessage
	x.tw.Sent = append(x.tw.Sent, Sent{MT: mt, Payload: payload, Step: step, Control: ctl, StartEv: len(x.tw.Calls), EndEv: -1,
		MayCompress: x.compNeg && x.compOn && !ctl, Level: x.level, Bad: bad, Reported: true, Deadline: x.deadline})
	return len(x.tw.Sent) - 1
}

func (x *wexec) endSent(i int) { x.tw.Sent[i].EndEv = len(x.tw.Calls) - 1 }

// finishOpen accounts for the implicit close of a writer left open.
func (x *wexec) implicitClosed() {
	if x.open != nil {
		// The next NextWriter/WriteMessage closes it; its final frame is
		// flushed inside that call.
		x.tw.Sent[x.openMsg].EndEv = len(x.tw.Calls) // the upcoming call
		x.open = nil
	}
}

func (x *wexec) ctlDeadline(n int) time.Time {
	if n == 0 {
		return time.Time{}
	}
	return time.Now().Add(time.Duration(n) * time.Hour)
}

// RunWrite executes a write program on c.  compNeg tells whether compression
// was negotiated for c (needed only to predict which messages may be
// compressed).  The executor never stops on errors unless stopOnErr is set.
func RunWrite(c *websocket.Conn, tr *xport.ScriptConn, steps []WStep, compNeg bool) *WTrace {
	return RunWriteRole(c, tr, steps, compNeg, false)
}

// RunWriteRole is RunWrite for programs containing peer-triggered closes, which
// need to know the connection's role to mask the injected frames.
func RunWriteRole(c *websocket.Conn, tr *xport.ScriptConn, steps []WStep, compNeg, server bool) *WTrace {
	return RunWriteHooked(c, tr, steps, compNeg, server, nil, nil)
}

// RunWriteHooked runs a program with a gate before and a hook after every API
// call; hook receives the executor's expectation "holds a write buffer".
func RunWriteHooked(c *websocket.Conn, tr *xport.ScriptConn, steps []WStep, compNeg, server bool, gate func(), after func(cl *Call, holding bool)) *WTrace {
	tw := &WTrace{Base: time.Now()}
	x := &wexec{c: c, tr: tr, tw: tw, compNeg: compNeg, compOn: true, level: 1, server: server, gate: gate}
	if after != nil {
		x.after = func(cl *Call) { after(cl, x.holding) }
	}
	for si, s := range steps {
		x.step(si, s)
	}
	if x.open != nil {
		m := x.openMsg
		w := x.open
		x.open = nil
		x.call(len(steps), 0, "Close", x.tw.Sent[m].Bad, m, func() error { return w.Close() })
		x.endSent(m)
	}
	return tw
}

func (x *wexec) step(si int, s WStep) {
	c := x.c
	switch s.Op {
	case "msg":
		data := s.Data.Bytes()
		x.implicitClosed()
		m := x.newSent(s.MT, data, si, false)
		x.call(si, 0, "WriteMessage", false, m, func() error { return c.WriteMessage(s.MT, data) })
		x.endSent(m)
	case "json":
		if s.JSON == unencodableJSON {
			// a value encoding/json refuses: WriteJSON must return the error, the
			// message is over (no buffer kept); what reaches the wire for it is an
			// empty text message at most
			x.implicitClosed()
			m := x.newSent(websocket.TextMessage, []byte{}, si, false)
			x.tw.Sent[m].OptionalEmpty = true
			x.call(si, 0, "WriteJSON", true, m, func() error { return c.WriteJSON(math.NaN()) })
			x.endSent(m)
			last := x.tw.Calls[len(x.tw.Calls)-1]
			x.tw.Sent[m].OnWire = last.WroteAfter > last.WroteBefore
			return
		}
		var v interface{}
		if err := json.Unmarshal([]byte(s.JSON), &v); err != nil {
			panic("harness: bad JSON in case: " + err.Error())
		}
		ref, _ := json.Marshal(v)
		ref = append(ref, '\n')
		x.implicitClosed()
		m := x.newSent(websocket.TextMessage, ref, si, false)
		x.call(si, 0, "WriteJSON", false, m, func() error {
			if si%2 == 1 {
				return websocket.WriteJSON(c, v) // the deprecated package-level spelling
			}
			return c.WriteJSON(v)
		})
		x.endSent(m)
	case "prepared":
		data := s.Data.Bytes()
		keep := append([]byte(nil), data...)
		var pm *websocket.PreparedMessage
		err := x.call(si, 0, "NewPreparedMessage", false, -1, func() error {
			var e error
			pm, e = websocket.NewPreparedMessage(s.MT, data)
			return e
		})
		if err != nil {
			return
		}
		// the caller may scribble over its slice after creation
		for i := range data {
			data[i] ^= 0xA5
		}
		m := x.newSent(s.MT, keep, si, false)
		x.tw.Sent[m].Prepared = true
		x.call(si, 1, "WritePreparedMessage", false, m, func() error { return c.WritePreparedMessage(pm) })
		x.endSent(m)
	case "control":
		data := s.Data.Bytes()
		m := x.newSent(s.MT, data, si, false)
		dl := x.ctlDeadline(s.Deadline)
		x.tw.Sent[m].Deadline = dl
		x.ctlDl = &dl
		x.call(si, 0, "WriteControl", false, m, func() error { return c.WriteControl(s.MT, data, dl) })
		x.endSent(m)
	case "enablecomp":
		c.EnableWriteCompression(s.On)
		x.compOn = s.On
	case "level":
		valid := s.Level >= -2 && s.Level <= 9
		err := x.call(si, 0, "SetCompressionLevel", !valid, -1, func() error { return c.SetCompressionLevel(s.Level) })
		if err == nil {
			x.level = s.Level
		}
	case "deadline":
		var t time.Time
		switch {
		case s.Deadline == 4:
			t = time.Date(2500, 1, 1, 0, 0, 0, 0, time.UTC) // beyond what fits in 64-bit nanoseconds since 1970
		case s.Deadline == 5:
			t = time.Date(9999, 12, 31, 23, 59, 59, 0, time.UTC)
		case s.Deadline == 6:
			t = time.Unix(0, 0) // a deadline like any other past instant, not "none"
		}
		if t.IsZero() && s.Deadline > 0 {
			t = x.tw.Base.Add(time.Duration(s.Deadline) * time.Hour)
		} else if s.Deadline < 0 {
			t = x.tw.Base.Add(-time.Hour) // long expired
		}
		if s.DeadlineMs > 0 {
			t = time.Now().Add(time.Duration(s.DeadlineMs) * time.Millisecond) // fake-clock scenarios
		}
		x.call(si, 0, "SetWriteDeadline", false, -1, func() error { return c.SetWriteDeadline(t) })
		x.deadline = t
	case "writer":
		x.writer(si, s, false)
	case "peerclose", "peerclose_custom", "peerviolation", "peerbig":
		x.peer(si, 0, s.Op, s.Level)
	case "bad":
		x.bad(si, s)
	default:
		panic("harness: unknown write op " + s.Op)
	}
}

func (x *wexec) writer(si int, s WStep, bad bool) {
	c := x.c
	data := s.Data.Bytes()
	x.implicitClosed()
	m := x.newSent(s.MT, data, si, bad)
	var w io.WriteCloser
	err := x.call(si, 0, "NextWriter", bad, m, func() error {
		var e error
		w, e = c.NextWriter(s.MT)
		return e
	})
	if err != nil || w == nil {
		x.endSent(m)
		return
	}
	rest := data
	for pi, p := range s.Parts {
		if p.API == "peerclose" || p.API == "peerclose_custom" || p.API == "peerviolation" || p.API == "peerbig" {
			x.peer(si, pi+1, p.API, p.MT)
			continue
		}
		if p.API == "enablecomp" {
			// takes effect for subsequent messages only; the open one keeps the
			// framing it was started with
			c.EnableWriteCompression(p.MT != 0)
			x.compOn = p.MT != 0
			continue
		}
		if p.API == "level" {
			if c.SetCompressionLevel(p.MT) == nil {
				x.level = p.MT
			}
			continue
		}
		if p.API == "control" {
			cd := p.Data.Bytes()
			cm := x.newSent(p.MT, cd, si, false)
			x.tw.Sent[cm].Deadline = time.Time{}
			x.ctlDl = &time.Time{}
			x.call(si, pi+1, "WriteControl", false, cm, func() error { return c.WriteControl(p.MT, cd, time.Time{}) })
			x.endSent(cm)
			continue
		}
		if p.API == "stale" {
			// the application still holds the writer of an earlier, closed message
			// and uses it by mistake while this message is open: that fails, writes
			// nothing and does not touch the open message
			if old := x.lastClosed; old != nil {
				if p.MT == 1 {
					x.call(si, pi+1, "WriteAfterClose", true, -1, func() error { _, e := old.Write([]byte("late")); return e })
				} else {
					x.call(si, pi+1, "CloseAfterClose", true, -1, func() error { return old.Close() })
				}
			}
			continue
		}
		if p.API == "prepctl" {
			// a prepared ping/pong sent while the message is open: like
			// WriteControl it goes between the message's frames and must not end it
			cd := p.Data.Bytes()
			cm := x.newSent(p.MT, cd, si, false)
			x.tw.Sent[cm].Prepared = true
			x.call(si, pi+1, "WritePreparedMessage", false, cm, func() error {
				pm, e := websocket.NewPreparedMessage(p.MT, cd)
				if e != nil {
					return e
				}
				return c.WritePreparedMessage(pm)
			})
			x.endSent(cm)
			continue
		}
		n := p.Len
		if n > len(rest) {
			n = len(rest)
		}
		chunk := rest[:n]
		rest = rest[n:]
		x.writePart(si, pi+1, p, w, chunk, bad, m)
	}
	if len(rest) > 0 {
		x.writePart(si, len(s.Parts)+1, WPart{API: "write"}, w, rest, bad, m)
	}
	if s.Implicit {
		x.open, x.openMsg = w, m
		return
	}
	x.call(si, len(s.Parts)+2, "Close", bad, m, func() error { return w.Close() })
	x.endSent(m)
	x.lastClosed = w
	if s.After == "write" || s.After == "both" {
		x.call(si, len(s.Parts)+3, "WriteAfterClose", true, -1, func() error { _, e := w.Write([]byte("late")); return e })
	}
	if s.After == "close" || s.After == "both" {
		x.call(si, len(s.Parts)+4, "CloseAfterClose", true, -1, func() error { return w.Close() })
	}
}

func (x *wexec) writePart(si, pi int, p WPart, w io.WriteCloser, chunk []byte, bad bool, m int) {
	switch p.API {
	case "wstring":
		x.call(si, pi, "WriteString", bad, m, func() error {
			n, e := io.WriteString(w, string(chunk))
			if e == nil && n != len(chunk) {
				return fmt.Errorf("harness: WriteString returned n=%d for %d bytes with nil error", n, len(chunk))
			}
			return e
		})
	case "readfrom":
		x.call(si, pi, "ReadFrom", bad, m, func() error {
			rf, ok := w.(io.ReaderFrom)
			src := &chunkSrc{data: chunk, chunks: p.Src, eofWith: p.EOFWith}
			if p.SrcErr && !bad {
				src.endErr = errSrcFailed
			}
			var n int64
			var e error
			if ok {
				n, e = rf.ReadFrom(src)
			} else {
				n, e = io.Copy(w, src)
			}
			if src.endErr != nil {
				// the source's own failure is reported, the bytes before it count
				if e != errSrcFailed {
					return fmt.Errorf("harness: the source failed with its own error but ReadFrom returned %v", e)
				}
				e = nil
			}
			if e == nil && n != int64(len(chunk)) {
				return fmt.Errorf("harness: ReadFrom returned n=%d for %d bytes with nil error", n, len(chunk))
			}
			return e
		})
	case "copy":
		x.call(si, pi, "Copy", bad, m, func() error {
			src := &chunkSrc{data: chunk, chunks: p.Src, eofWith: p.EOFWith}
			n, e := io.Copy(w, src)
			if e == nil && n != int64(len(chunk)) {
				return fmt.Errorf("harness: io.Copy returned n=%d for %d bytes with nil error", n, len(chunk))
			}
			return e
		})
	default:
		x.call(si, pi, "Write", bad, m, func() error {
			n, e := w.Write(chunk)
			if e == nil && n != len(chunk) {
				return fmt.Errorf("harness: Write returned n=%d for %d bytes with nil error", n, len(chunk))
			}
			return e
		})
	}
}

// peer makes the read side of the connection send a close frame on its own:
// a close frame from the peer (default handler echoes it), a protocol
// violation (1002) or a read-limit breach (1009).  code is the close code
// for peerclose.
func (x *wexec) peer(si, pi int, kind string, code int) {
	masked := x.server // peers of a server mask
	f := wsref.Frame{Fin: true, Masked: masked, Key: [4]byte{9, 8, 7, 6}}
	switch kind {
	case "peerclose", "peerclose_custom":
		f.Opcode = wsref.OpClose
		if code > 0 {
			f.Payload = wsref.CloseBody(code, "bye")
		}
		if kind == "peerclose_custom" {
			// an application-supplied close handler that echoes the close itself,
			// the way the documentation of SetCloseHandler describes
			c := x.c
			c.SetCloseHandler(func(code int, text string) error {
				return c.WriteControl(websocket.CloseMessage, websocket.FormatCloseMessage(code, ""), time.Now().Add(time.Hour))
			})
		}
	case "peerviolation":
		f.Opcode = wsref.OpText
		f.Rsv2 = true
		f.Payload = []byte("x")
	default:
		x.c.SetReadLimit(4)
		f.Opcode = wsref.OpBinary
		f.Payload = []byte("0123456789")
	}
	x.tr.AppendInput(wsref.AppendFrame(nil, f))
	x.call(si, pi, "NextReader:"+kind, false, -1, func() error {
		_, _, err := x.c.NextReader()
		if err == nil {
			return errors.New("harness: NextReader succeeded on a closing input")
		}
		return nil
	})
}

// bad executes an intentionally invalid request.  The request as a whole must
// fail (some call of it returns an error) and must not put a byte on the wire.
func (x *wexec) bad(si int, s WStep) {
	c := x.c
	data := s.Data.Bytes()
	switch s.Via {
	case "control":
		x.ctlDl = &time.Time{}
		x.call(si, 0, "WriteControl", true, -1, func() error { return c.WriteControl(s.MT, data, time.Time{}) })
	case "prepared":
		var pm *websocket.PreparedMessage
		x.call(si, 0, "NewPreparedMessage", true, -1, func() error {
			var e error
			pm, e = websocket.NewPreparedMessage(s.MT, data)
			if e != nil {
				pm = nil
				return e
			}
			return c.WritePreparedMessage(pm)
		})
		if pm != nil {
			// an invalid prepared message stays invalid however often it is sent
			x.call(si, 1, "WritePreparedMessage", true, -1, func() error { return c.WritePreparedMessage(pm) })
		}
	case "writer":
		x.writer(si, WStep{Op: "writer", MT: s.MT, Data: s.Data, Parts: s.Parts}, true)
		// the invalid message occupies a Sent slot flagged Bad
	default:
		x.implicitClosed()
		x.call(si, 0, "WriteMessage", true, -1, func() error { return c.WriteMessage(s.MT, data) })
	}
}

// ---------------------------------------------------------------- generators

var dataTypes = []int{websocket.TextMessage, websocket.BinaryMessage}
var badTypes = []int{0, 3, 4, 7, 11, 15, 16, -1, 255, 256 + 1, 0x81}

func genJSONValue(t *rapid.T, depth int) interface{} {
	k := rapid.IntRange(0, 7).Draw(t, "jkind")
	if depth <= 0 && k >= 6 {
		k = 2
	}
	switch k {
	case 0:
		return nil
	case 1:
		return rapid.Bool().Draw(t, "jbool")
	case 2:
		return rapid.StringOfN(rapid.RuneFrom([]rune("ab<>&\"\\ \n\té世 𝄞0")), 0, 12, -1).Draw(t, "jstr")
	case 3:
		return float64(rapid.IntRange(-1000, 1000).Draw(t, "jint"))
	case 4:
		return rapid.Float64Range(-1e6, 1e6).Draw(t, "jfloat")
	case 5:
		return rapid.StringOfN(rapid.RuneFrom([]rune("xyz ")), 0, 400, -1).Draw(t, "jlong")
	case 6:
		n := rapid.IntRange(0, 4).Draw(t, "jn")
		a := make([]interface{}, n)
		for i := range a {
			a[i] = genJSONValue(t, depth-1)
		}
		return a
	default:
		n := rapid.IntRange(0, 4).Draw(t, "jn")
		m := map[string]interface{}{}
		for i := 0; i < n; i++ {
			m[rapid.StringOfN(rapid.RuneFrom([]rune("abc<é")), 0, 4, -1).Draw(t, "jkey")] = genJSONValue(t, depth-1)
		}
		return m
	}
}

// genParts splits n payload bytes over writer calls.
func genParts(t *rapid.T, n, w int, allowCtl bool, apis []string) []WPart {
	k := rapid.IntRange(0, 5).Draw(t, "nparts")
	var parts []WPart
	remaining := n
	for i := 0; i < k; i++ {
		if allowCtl && rapid.IntRange(0, 5).Draw(t, "ctlpart") == 0 {
			parts = append(parts, WPart{API: rapid.SampledFrom([]string{"control", "control", "prepctl"}).Draw(t, "ctlapi"), MT: rapid.SampledFrom([]int{websocket.PingMessage, websocket.PongMessage}).Draw(t, "ctlmt"), Data: genCtlPayload(t, "ctlp")})
			continue
		}
		if allowCtl && rapid.IntRange(0, 11).Draw(t, "stalepart") == 0 {
			parts = append(parts, WPart{API: "stale", MT: rapid.IntRange(0, 1).Draw(t, "stale_kind")})
			continue
		}
		if allowCtl && rapid.IntRange(0, 9).Draw(t, "togglepart") == 0 {
			// a compression setting changed while the message is open
			if rapid.Bool().Draw(t, "toggle_kind") {
				parts = append(parts, WPart{API: "enablecomp", MT: rapid.IntRange(0, 1).Draw(t, "toggle_on")})
			} else {
				parts = append(parts, WPart{API: "level", MT: rapid.IntRange(-2, 9).Draw(t, "toggle_level")})
			}
			continue
		}
		var l int
		switch rapid.IntRange(0, 4).Draw(t, "plen_c") {
		case 0:
			l = rapid.IntRange(0, 3).Draw(t, "plen")
		case 1:
			l = max0(w + rapid.IntRange(-2, 2).Draw(t, "plen"))
		case 2:
			l = max0(2*(w+14) + rapid.IntRange(-1, 2).Draw(t, "plen"))
		default:
			l = rapid.IntRange(0, remaining).Draw(t, "plen")
		}
		if l > remaining {
			l = remaining
		}
		p := WPart{API: rapid.SampledFrom(apis).Draw(t, "api"), Len: l}
		if p.API == "readfrom" || p.API == "copy" {
			p.Src = rapid.SliceOfN(rapid.OneOf(rapid.IntRange(1, 8), rapid.IntRange(1, 2*w+40)), 0, 6).Draw(t, "src")
			p.EOFWith = rapid.Bool().Draw(t, "eofwith")
			p.SrcErr = p.API == "readfrom" && rapid.IntRange(0, 2).Draw(t, "srcerr") == 0
		}
		parts = append(parts, p)
		remaining -= l
	}
	return parts
}

var partAPIs = []string{"write", "write", "wstring", "readfrom", "copy"}

// WGenOpts tunes the write program generator.
type WGenOpts struct {
	MaxSteps   int
	AllowHuge  bool
	AllowBad   bool
	AllowClose bool // a close message may be the last step
	AllowCtl   bool
}

// genWriteProgram draws a write program for a connection with write buffer w.
func genWriteProgram(t *rapid.T, w int, o WGenOpts) []WStep {
	steps := rapid.SliceOfN(rapid.Custom(func(t *rapid.T) WStep { return genWStep(t, w, o) }), 1, o.MaxSteps).Draw(t, "steps")
	for i := 0; i < len(steps); i++ {
		if steps[i].Op == "json" && steps[i].JSON == unencodableJSON && i > 0 && steps[i-1].Op == "writer" {
			steps[i-1].Implicit = false // keep the wire bytes of this call attributable to it alone
		}
		if i+1 < len(steps) && steps[i].Op == "json" && steps[i].JSON == unencodableJSON {
			n := &steps[i+1]
			if (n.Op == "msg" || n.Op == "writer" || n.Op == "prepared") && n.MT == websocket.TextMessage && n.Data.Len == 0 {
				n.MT = websocket.BinaryMessage
			}
		}
	}
	// A writer left open must be followed by a call that opens the next
	// message (which closes it implicitly); otherwise close it explicitly.
	for i := range steps {
		if steps[i].Op == "writer" && steps[i].Implicit {
			if i == len(steps)-1 {
				steps[i].Implicit = false
				continue
			}
			// the next step that touches the wire must be an opener (which closes
			// this writer); pure setting changes may come in between
			j := i + 1
			for j < len(steps) && (steps[j].Op == "enablecomp" || steps[j].Op == "level" || steps[j].Op == "deadline") {
				j++
			}
			ok := j < len(steps) && (steps[j].Op == "json" || steps[j].Op == "writer" || steps[j].Op == "msg")
			if !ok {
				steps[i].Implicit = false
			}
		}
	}
	if o.AllowClose && rapid.IntRange(0, 3).Draw(t, "closing") == 0 {
		code := rapid.SampledFrom([]int{1000, 1001, 1002, 1003, 1007, 1008, 1009, 1010, 1011, 3000, 4999}).Draw(t, "ccode")
		reason := rapid.StringOfN(rapid.RuneFrom([]rune("abc é")), 0, 30, 120).Draw(t, "creason")
		body := websocket.FormatCloseMessage(code, reason)
		if rapid.IntRange(0, 4).Draw(t, "cempty") == 0 {
			body = []byte{}
		}
		via := rapid.SampledFrom([]string{"control", "msg", "writer", "prepared"}).Draw(t, "cvia")
		d := Payload{Len: len(body), Kind: "raw", Raw: body}
		switch via {
		case "control":
			steps = append(steps, WStep{Op: "control", MT: websocket.CloseMessage, Data: d, Deadline: 1})
		case "msg":
			steps = append(steps, WStep{Op: "msg", MT: websocket.CloseMessage, Data: d})
		case "writer":
			steps = append(steps, WStep{Op: "writer", MT: websocket.CloseMessage, Data: d, Parts: genParts(t, d.Len, 125, false, []string{"write", "wstring"})})
		default:
			steps = append(steps, WStep{Op: "prepared", MT: websocket.CloseMessage, Data: d})
		}
	}
	return steps
}

func genWStep(t *rapid.T, w int, o WGenOpts) WStep {
	var s WStep
	k := rapid.IntRange(0, 99).Draw(t, "op")
	switch {
	case k < 30:
		s = WStep{Op: "msg", MT: rapid.SampledFrom(dataTypes).Draw(t, "mt"), Data: genPayload(t, "p", w, o.AllowHuge)}
	case k < 60:
		d := genPayload(t, "p", w, o.AllowHuge)
		s = WStep{Op: "writer", MT: rapid.SampledFrom(dataTypes).Draw(t, "mt"), Data: d, Parts: genParts(t, d.Len, w, o.AllowCtl, partAPIs)}
		s.Implicit = rapid.IntRange(0, 3).Draw(t, "implicit") == 0
		if !s.Implicit && o.AllowBad && rapid.IntRange(0, 9).Draw(t, "after_close") == 0 {
			s.After = rapid.SampledFrom([]string{"close", "write", "both"}).Draw(t, "after")
		}
	case k < 70:
		js, _ := json.Marshal(genJSONValue(t, 2))
		s = WStep{Op: "json", JSON: string(js)}
		if o.AllowBad && rapid.IntRange(0, 7).Draw(t, "unencodable") == 0 {
			s.JSON = unencodableJSON
		}
	case k < 78:
		mt := rapid.SampledFrom([]int{websocket.TextMessage, websocket.BinaryMessage, websocket.BinaryMessage, websocket.PingMessage, websocket.PongMessage}).Draw(t, "mt")
		if mt >= 8 {
			if !o.AllowCtl {
				mt = websocket.BinaryMessage
				s = WStep{Op: "prepared", MT: mt, Data: genPayload(t, "p", 4096, o.AllowHuge)}
			} else {
				s = WStep{Op: "prepared", MT: mt, Data: genCtlPayload(t, "cp")}
			}
		} else {
			s = WStep{Op: "prepared", MT: mt, Data: genPayload(t, "p", 4096, o.AllowHuge)}
		}
	case k < 86:
		if !o.AllowCtl {
			s = WStep{Op: "msg", MT: websocket.BinaryMessage, Data: genPayload(t, "p", w, false)}
			break
		}
		mt := rapid.SampledFrom([]int{websocket.PingMessage, websocket.PongMessage}).Draw(t, "cmt")
		via := rapid.SampledFrom([]string{"control", "control", "msg", "writer"}).Draw(t, "via")
		d := genCtlPayload(t, "cp")
		switch via {
		case "control":
			s = WStep{Op: "control", MT: mt, Data: d, Deadline: rapid.IntRange(0, 2).Draw(t, "cdl")}
		case "msg":
			s = WStep{Op: "msg", MT: mt, Data: d}
		default:
			s = WStep{Op: "writer", MT: mt, Data: d, Parts: genParts(t, d.Len, 125, false, []string{"write", "wstring", "readfrom", "copy"})}
		}
	case k < 90:
		s = WStep{Op: "enablecomp", On: rapid.Bool().Draw(t, "on")}
	case k < 94:
		s = WStep{Op: "level", Level: rapid.IntRange(-4, 11).Draw(t, "level")}
	case k < 96:
		s = WStep{Op: "deadline", Deadline: rapid.SampledFrom([]int{0, 1, 2, 3, 1, 2, 4, 5, 6}).Draw(t, "dl")}
	default:
		if !o.AllowBad {
			s = WStep{Op: "msg", MT: websocket.TextMessage, Data: genPayload(t, "p", w, false)}
			break
		}
		s = genBadStep(t, w)
	}
	return s
}

func genBadStep(t *rapid.T, w int) WStep {
	switch rapid.IntRange(0, 2).Draw(t, "badkind") {
	case 0:
		return WStep{Op: "bad", Bad: "type", Via: rapid.SampledFrom([]string{"message", "writer", "control", "prepared"}).Draw(t, "via"),
			MT: rapid.SampledFrom(badTypes).Draw(t, "badmt"), Data: genPayloadOfLen(t, "bp", rapid.IntRange(0, 40).Draw(t, "bl"))}
	case 1:
		n := rapid.OneOf(rapid.IntRange(126, 130), rapid.IntRange(126, 3000)).Draw(t, "bl")
		via := rapid.SampledFrom([]string{"message", "writer", "control", "prepared"}).Draw(t, "via")
		mt := rapid.SampledFrom([]int{websocket.PingMessage, websocket.PongMessage, websocket.CloseMessage}).Draw(t, "cmt")
		s := WStep{Op: "bad", Bad: "bigctl", Via: via, MT: mt, Data: genPayloadOfLen(t, "bp", n)}
		if via == "writer" {
			s.Parts = genParts(t, n, w, false, partAPIs)
		}
		return s
	default:
		// WriteControl with a data message type
		return WStep{Op: "bad", Bad: "type", Via: "control", MT: rapid.SampledFrom(dataTypes).Draw(t, "dmt"), Data: genPayloadOfLen(t, "bp", rapid.IntRange(0, 40).Draw(t, "bl"))}
	}
}
