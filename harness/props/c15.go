package props

import (
	"bufio"
	"bytes"
	"context"
	"errors"
	"fmt"
	"io"
	"net"
	"net/http"
	"strings"

	"github.com/gorilla/websocket"
	"pgregory.net/rapid"

	"verifharness/wsref"
	"verifharness/xport"
)

// CMsg is one message of a compression-agreement scenario.
type CMsg struct {
	FromClient bool    `json:"from_client"`
	Data       Payload `json:"data"`
	MT         int     `json:"mt"`
	// Setting changes applied to the sender before the message.
	SetOn    int `json:"set_on"`    // 0 leave, 1 enable, 2 disable write compression
	SetLevel int `json:"set_level"` // -100 leave, else level
	// Scripted peers only: send this message compressed (RSV1).
	Compressed bool `json:"compressed,omitempty"`
	// MidToggle: the message is written through NextWriter and write compression
	// is switched (1 on, 2 off) or the level changed (MidLevel != -100) after
	// the first half; the open message must keep the framing it started with.
	MidToggle int `json:"mid_toggle,omitempty"`
	MidLevel  int `json:"mid_level,omitempty"`
	// Partial: the receiving application reads only this many bytes of the
	// message and moves on (-1 = reads it to the end).
	Partial int `json:"partial"`
	// Hold (pair leg): the receiver opens the message, reads its first half and
	// finishes it only after the next message - which flows in the opposite
	// direction - has been sent and read, so that both endpoints of the
	// process are inside a message at the same time.
	Hold bool `json:"hold,omitempty"`
}

// CompCase is one compression negotiation scenario.
type CompCase struct {
	// Leg: pair (Dialer<->Upgrader) | server (Upgrader vs scripted client) | client (Dialer vs scripted server)
	Leg        string   `json:"leg"`
	DialerOn   bool     `json:"dialer_on"`
	UpgraderOn bool     `json:"upgrader_on"`
	Offer      []string `json:"offer,omitempty"`    // leg server: extension header lines of the client
	Announce   []string `json:"announce,omitempty"` // leg client: extension header lines of the 101
	Msgs       []CMsg   `json:"msgs"`
	// RespExt (pair leg): the server application passes a responseHeader that
	// carries a Sec-WebSocket-Extensions line of its own.  The library may
	// refuse that; if the handshake succeeds, both ends must still agree.
	RespExt bool `json:"resp_ext,omitempty"`
}

var announcePool = [][]string{
	nil, nil,
	{"permessage-deflate; server_no_context_takeover; client_no_context_takeover"},
	{"permessage-deflate; client_no_context_takeover; server_no_context_takeover"},
	{"permessage-deflate;server_no_context_takeover;client_no_context_takeover"},
	{"permessage-deflate; server_no_context_takeover; client_no_context_takeover; server_max_window_bits=15"},
	{"permessage-deflate; server_no_context_takeover; client_no_context_takeover; server_max_window_bits=16"},
	{"permessage-deflate; server_no_context_takeover; client_no_context_takeover; server_max_window_bits=7; client_max_window_bits=0"},
	{`permessage-deflate; server_no_context_takeover; client_no_context_takeover; server_max_window_bits="32"`},
	{"permessage-deflate; server_no_context_takeover"},
	{"permessage-deflate; client_no_context_takeover"},
	{"permessage-deflate"},
	{"permessage-deflate; server_max_window_bits=10"},
	{"foo"},
	{"foo, permessage-deflate; server_no_context_takeover; client_no_context_takeover"},
	{"foo; a=b", "permessage-deflate; server_no_context_takeover; client_no_context_takeover"},
	{"x-webkit-deflate-frame"},
	{"permessage-deflate2; server_no_context_takeover; client_no_context_takeover"},
	{`permessage-deflate; server_no_context_takeover="1"; client_no_context_takeover`},
	// the two parameters spread over two announcements of the extension: no
	// single one carries both
	{"permessage-deflate; server_no_context_takeover, permessage-deflate; client_no_context_takeover"},
	{"permessage-deflate; client_no_context_takeover", "permessage-deflate; server_no_context_takeover"},
	{"permessage-deflate, foo; server_no_context_takeover; client_no_context_takeover"},
	// quoted-pairs inside a quoted parameter value, and every token character
	// in another extension's parameters
	{`permessage-deflate; server_no_context_takeover; client_no_context_takeover; server_max_window_bits="1\5"`},
	{`permessage-deflate; x="a\"b\\"; server_no_context_takeover; client_no_context_takeover`},
	{"x-foo; mode=a~b, permessage-deflate; server_no_context_takeover; client_no_context_takeover"},
	{"x-foo; m`=!#$%&'*+-.^_|~, permessage-deflate; server_no_context_takeover; client_no_context_takeover"},
}

// genExtLines composes an extension header: 1-4 well-formed elements (at most
// one of them from pmd, at any position) spread over 1-3 header lines.
func genExtLines(t *rapid.T, pmd []string) []string {
	others := []string{"foo", "bar; a=b", `x-ext; note="a, b"`, "x-webkit-deflate-frame", "permessage-deflate2", "baz; k=v; flag"}
	n := rapid.IntRange(1, 4).Draw(t, "ext_n")
	at := rapid.IntRange(-1, n-1).Draw(t, "ext_pmd_at") // -1: no permessage-deflate element
	var lines []string
	cur := ""
	for i := 0; i < n; i++ {
		e := rapid.SampledFrom(others).Draw(t, "ext_other")
		if i == at {
			e = rapid.SampledFrom(pmd).Draw(t, "ext_pmd")
		}
		if cur != "" && rapid.Bool().Draw(t, "ext_newline") {
			lines = append(lines, cur)
			cur = ""
		}
		if cur != "" {
			cur += rapid.SampledFrom([]string{", ", ",", " , ", ",\t", "\t,\t"}).Draw(t, "ext_sep")
		}
		if rapid.IntRange(0, 3).Draw(t, "ext_tabs") == 0 {
			e = strings.ReplaceAll(e, "; ", ";\t") // HTAB is optional whitespace just as SP is
		}
		cur += e
	}
	return append(lines, cur)
}

func genCompCase(t *rapid.T) CompCase {
	var c CompCase
	c.Leg = rapid.SampledFrom([]string{"pair", "pair", "server", "client"}).Draw(t, "leg")
	c.DialerOn = rapid.Bool().Draw(t, "dialer_on")
	c.UpgraderOn = rapid.Bool().Draw(t, "upgrader_on")
	c.RespExt = c.Leg == "pair" && rapid.IntRange(0, 4).Draw(t, "resp_ext") == 0
	switch c.Leg {
	case "server":
		c.Offer = rapid.SampledFrom(extOffers).Draw(t, "offer")
		if rapid.IntRange(0, 2).Draw(t, "composed_offer") == 0 {
			c.Offer = genExtLines(t, []string{"permessage-deflate", "permessage-deflate; client_max_window_bits", "permessage-deflate; server_no_context_takeover; client_no_context_takeover"})
		}
	case "client":
		c.Announce = rapid.SampledFrom(announcePool).Draw(t, "announce")
		if rapid.IntRange(0, 2).Draw(t, "composed_announce") == 0 {
			c.Announce = genExtLines(t, []string{"permessage-deflate; server_no_context_takeover; client_no_context_takeover", "permessage-deflate; client_no_context_takeover; server_no_context_takeover", "permessage-deflate; server_no_context_takeover", "permessage-deflate"})
		}
	}
	n := rapid.IntRange(1, 6).Draw(t, "nmsgs")
	for i := 0; i < n; i++ {
		m := CMsg{FromClient: rapid.Bool().Draw(t, "from_client"), MT: rapid.SampledFrom(dataTypes).Draw(t, "mt"), SetLevel: -100}
		m.Data = genPayloadOfLen(t, "p", rapid.OneOf(rapid.IntRange(0, 40), rapid.IntRange(100, 3000), rapid.SampledFrom([]int{4096, 5000, 70000})).Draw(t, "len"))
		if rapid.IntRange(0, 2).Draw(t, "toggle") == 0 {
			m.SetOn = rapid.IntRange(1, 2).Draw(t, "set_on")
		}
		if rapid.IntRange(0, 3).Draw(t, "setlevel") == 0 {
			m.SetLevel = rapid.OneOf(rapid.IntRange(-2, 9), rapid.SampledFrom([]int{-3, 10, 12, 100, -50})).Draw(t, "level")
		}
		m.Compressed = rapid.Bool().Draw(t, "compressed")
		m.MidLevel = -100
		if rapid.IntRange(0, 3).Draw(t, "midtoggle") == 0 {
			m.MidToggle = rapid.IntRange(1, 2).Draw(t, "mid_on")
			if rapid.Bool().Draw(t, "mid_level_too") {
				m.MidLevel = rapid.IntRange(-2, 9).Draw(t, "mid_level")
			}
		}
		m.Partial = -1
		if rapid.IntRange(0, 4).Draw(t, "partial") == 0 {
			m.Partial = rapid.IntRange(0, 10).Draw(t, "partial_n")
		} else if c.Leg == "pair" && rapid.IntRange(0, 2).Draw(t, "hold") == 0 {
			m.Hold = true
		}
		c.Msgs = append(c.Msgs, m)
	}
	return c
}

// pairUp performs a real handshake between a Dialer and an Upgrader over
// scripted transports, sequentially: when the client has written its request
// the Upgrader runs, and what it wrote becomes the client's input.
// pairRespHeader, if set, is the responseHeader the application passes to
// Upgrade in pairUp.
var pairRespHeader http.Header

func pairUp(dialerOn, upgraderOn bool, offerOverride []string) (client, server *websocket.Conn, trC, trS *xport.ScriptConn, respHead []byte, err error) {
	trC = xport.NewScriptConn(nil, nil)
	trS = xport.NewScriptConn(nil, nil)
	var buf []byte
	done := false
	var upErr error
	trC.OnWrite = func(c *xport.ScriptConn, p []byte) {
		if done {
			return
		}
		buf = append(buf, p...)
		i := bytes.Index(buf, []byte("\r\n\r\n"))
		if i < 0 {
			return
		}
		done = true
		raw := buf[:i+4]
		if offerOverride != nil {
			raw = replaceHeader(raw, "Sec-WebSocket-Extensions", offerOverride)
		}
		req, rerr := http.ReadRequest(bufio.NewReader(bytes.NewReader(raw)))
		if rerr != nil {
			upErr = rerr
			return
		}
		w := &fakeRW{conn: trS, brw: bufio.NewReadWriter(bufio.NewReaderSize(trS, 4096), bufio.NewWriterSize(trS, 4096))}
		u := websocket.Upgrader{EnableCompression: upgraderOn, CheckOrigin: allowOrigin}
		server, upErr = u.Upgrade(w, req, pairRespHeader)
		if upErr != nil {
			c.AppendInputLocked([]byte(fmt.Sprintf("HTTP/1.1 %d Error\r\nContent-Length: 0\r\n\r\n", w.status)))
			return
		}
		respHead = append([]byte(nil), trS.Wrote...)
		c.AppendInputLocked(respHead)
	}
	d := websocket.Dialer{NetDialContext: func(ctx context.Context, network, addr string) (net.Conn, error) { return trC, nil }, EnableCompression: dialerOn}
	client, _, err = d.Dial("ws://example.com/", nil)
	trC.OnWrite = nil
	if err != nil {
		return nil, server, trC, trS, respHead, err
	}
	if upErr != nil {
		return nil, nil, trC, trS, respHead, upErr
	}
	trC.ResetLog()
	trS.ResetLog()
	return client, server, trC, trS, respHead, nil
}

func replaceHeader(raw []byte, name string, lines []string) []byte {
	var out []string
	for _, l := range strings.Split(strings.TrimSuffix(string(raw), "\r\n\r\n"), "\r\n") {
		if k, _, ok := strings.Cut(l, ":"); ok && strings.EqualFold(k, name) {
			continue
		}
		out = append(out, l)
	}
	for _, l := range lines {
		out = append(out, name+": "+l)
	}
	return []byte(strings.Join(out, "\r\n") + "\r\n\r\n")
}

// announced reports whether extension lines announce permessage-deflate and
// with both no_context_takeover parameters.
func announced(lines []string) (pmd, both, clean bool) {
	exts, clean := wsref.ParseExtensions(lines)
	for _, e := range exts {
		if e.Name == "permessage-deflate" {
			pmd = true
			_, s := e.Params["server_no_context_takeover"]
			_, c := e.Params["client_no_context_takeover"]
			both = s && c
			break
		}
	}
	return
}

func applySettings(conn *websocket.Conn, m CMsg) error {
	switch m.SetOn {
	case 1:
		conn.EnableWriteCompression(true)
	case 2:
		conn.EnableWriteCompression(false)
	}
	if m.SetLevel != -100 {
		if m.SetLevel < -2 || m.SetLevel > 9 {
			// an invalid level is refused and changes nothing
			if err := conn.SetCompressionLevel(m.SetLevel); err == nil {
				return fmt.Errorf("SetCompressionLevel(%d) was accepted", m.SetLevel)
			}
			return nil
		}
		return conn.SetCompressionLevel(m.SetLevel)
	}
	return nil
}

// sendAndCheck writes a message on from, judges its wire image, transfers it to
// to (if not nil) and reads it back.
func sendAndCheck(i int, m CMsg, from, to *websocket.Conn, trFrom, trTo *xport.ScriptConn, fromServer, negotiated bool, rsv1Seen *int) error {
	return sendAndCheckHold(i, m, from, to, trFrom, trTo, fromServer, negotiated, rsv1Seen, nil)
}

// sendAndCheckHold is sendAndCheck; with hold != nil and m.Hold the message is
// left half-read and *hold is set to the function that finishes it.
func sendAndCheckHold(i int, m CMsg, from, to *websocket.Conn, trFrom, trTo *xport.ScriptConn, fromServer, negotiated bool, rsv1Seen *int, hold *func() error) error {
	if err := applySettings(from, m); err != nil {
		return fmt.Errorf("message %d: setting change failed: %v", i, err)
	}
	data := m.Data.Bytes()
	before := len(trFrom.Wrote)
	if m.MidToggle != 0 {
		w, err := from.NextWriter(m.MT)
		if err != nil {
			return fmt.Errorf("message %d: NextWriter failed: %v", i, err)
		}
		if _, err := w.Write(data[:len(data)/2]); err != nil {
			return fmt.Errorf("message %d: Write failed: %v", i, err)
		}
		from.EnableWriteCompression(m.MidToggle == 1)
		if m.MidLevel != -100 {
			from.SetCompressionLevel(m.MidLevel)
		}
		if _, err := w.Write(data[len(data)/2:]); err != nil {
			return fmt.Errorf("message %d: Write failed: %v", i, err)
		}
		if err := w.Close(); err != nil {
			return fmt.Errorf("message %d: Close failed: %v", i, err)
		}
	} else if err := from.WriteMessage(m.MT, data); err != nil {
		return fmt.Errorf("message %d: WriteMessage failed: %v", i, err)
	}
	seg := append([]byte(nil), trFrom.Wrote[before:]...)
	frames, consumed, err := wsref.DecodeFrames(seg, !fromServer)
	if err != nil || consumed != len(seg) {
		return fmt.Errorf("message %d: wire not well-formed: %v", i, err)
	}
	// RSV1 may be used only if negotiated; judged with compression "allowed" so that we can report it ourselves
	msgs, err := wsref.Assemble(frames, wsref.AssembleOpts{Compression: true})
	if err != nil || len(msgs) != 1 {
		return fmt.Errorf("message %d: wire framing: %v (%d messages)", i, err, len(msgs))
	}
	if msgs[0].Compressed {
		*rsv1Seen++
		if !negotiated {
			return fmt.Errorf("message %d: the %s sent a compressed (RSV1) message although permessage-deflate with both no_context_takeover parameters was not agreed in the handshake", i, map[bool]string{true: "server", false: "client"}[fromServer])
		}
		inf, err := wsref.Inflate(msgs[0].Payload, len(data)+1024)
		if err != nil || !bytes.Equal(inf, data) {
			return fmt.Errorf("message %d: compressed payload does not inflate to what was sent: %v", i, err)
		}
	} else if !bytes.Equal(msgs[0].Payload, data) {
		return fmt.Errorf("message %d: uncompressed payload differs from what was sent", i)
	}
	if to == nil {
		return nil
	}
	trTo.AppendInput(seg)
	if hold != nil && m.Hold {
		mt, r, err := to.NextReader()
		if err != nil {
			return fmt.Errorf("message %d (RSV1=%v) could not be opened by the peer: %v", i, msgs[0].Compressed, err)
		}
		first := make([]byte, len(data)/2)
		n, _ := io.ReadFull(r, first)
		if mt != m.MT || !bytes.Equal(first[:n], data[:n]) || n != len(first) {
			return fmt.Errorf("message %d: the first %d bytes read by the peer differ from what was sent", i, n)
		}
		compressed := msgs[0].Compressed
		*hold = func() error {
			rest, err := io.ReadAll(r)
			if err != nil {
				return fmt.Errorf("message %d (%d bytes, RSV1=%v), left half-read while a message flowed in the other direction, could not be finished: %v", i, len(data), compressed, err)
			}
			if got := append(first, rest...); !bytes.Equal(got, data) {
				return fmt.Errorf("message %d (RSV1=%v), left half-read while a message flowed in the other direction: received %d bytes (differs at %d), sent %d", i, compressed, len(got), firstDiff(got, data), len(data))
			}
			return nil
		}
		return nil
	}
	if m.Partial >= 0 {
		mt, r, err := to.NextReader()
		if err != nil {
			return fmt.Errorf("message %d (RSV1=%v) could not be opened by the peer: %v", i, msgs[0].Compressed, err)
		}
		buf := make([]byte, m.Partial)
		n, _ := io.ReadFull(r, buf)
		if mt != m.MT || !bytes.Equal(buf[:n], data[:min(n, len(data))]) {
			return fmt.Errorf("message %d: the first %d bytes read by the peer differ from what was sent", i, n)
		}
		return nil
	}
	mt, got, err := to.ReadMessage()
	if err != nil {
		return fmt.Errorf("message %d (%d bytes, RSV1=%v) could not be read by the peer: %v - the endpoints disagree about compression", i, len(data), msgs[0].Compressed, err)
	}
	if mt != m.MT || !bytes.Equal(got, data) {
		return fmt.Errorf("message %d (RSV1=%v): peer received type %d, %d bytes (differs at %d); sent type %d, %d bytes - compressed bytes delivered as data?", i, msgs[0].Compressed, mt, len(got), firstDiff(got, data), m.MT, len(data))
	}
	return nil
}

// feedScripted sends a scripted (independent encoder) message to conn and
// checks that it is accepted iff allowed.
func feedScripted(i int, m CMsg, conn *websocket.Conn, tr *xport.ScriptConn, connIsServer, negotiated bool) (dead bool, err error) {
	data := m.Data.Bytes()
	payload := data
	if m.Compressed {
		// odd messages: the peer's deflater ends the message with a final block
		// (RFC 7692 section 7.2.3.4), which gorilla's own writer never does
		payload = wsref.DeflateMessage(data, []wsref.Seg{{Kind: "flate", Len: len(data), Level: 6}}, i%2 == 1, 6)
	}
	f := wsref.Frame{Fin: true, Rsv1: m.Compressed, Opcode: byte(m.MT), Masked: connIsServer, Key: [4]byte{1, 2, 3, byte(i)}, Payload: payload}
	tr.AppendInput(wsref.AppendFrame(nil, f))
	var mt int
	var got []byte
	var rerr error
	switch how := (i / 2) % 3; {
	case how == 1 && len(data) > 0 && (negotiated || !m.Compressed):
		// the application reads the connection as one stream
		got = make([]byte, len(data))
		_, rerr = io.ReadFull(websocket.JoinMessages(conn, ""), got)
		mt = m.MT
		if rerr != nil {
			rerr = fmt.Errorf("read through JoinMessages: %w", rerr)
		}
	case how == 2 && (negotiated || !m.Compressed):
		// a read limit of exactly the message's size on the wire
		conn.SetReadLimit(int64(len(payload)))
		mt, got, rerr = conn.ReadMessage()
		conn.SetReadLimit(0)
		if rerr != nil {
			rerr = fmt.Errorf("read under SetReadLimit(%d), the size of its payload on the wire: %w", len(payload), rerr)
		}
	default:
		mt, got, rerr = conn.ReadMessage()
	}
	if m.Compressed && !negotiated {
		if rerr == nil {
			return false, fmt.Errorf("scripted message %d: an RSV1 frame was accepted although compression was not agreed (delivered %d bytes)", i, len(got))
		}
		return true, nil // protocol error: the connection is finished
	}
	if rerr != nil {
		return true, fmt.Errorf("scripted message %d (RSV1=%v, negotiated=%v): refused: %v", i, m.Compressed, negotiated, rerr)
	}
	if mt != m.MT || !bytes.Equal(got, data) {
		return false, fmt.Errorf("scripted message %d (RSV1=%v): delivered type %d, %d bytes, differs at %d", i, m.Compressed, mt, len(got), firstDiff(got, data))
	}
	return false, nil
}

func checkC15(c CompCase, o *Obs) error {
	rsv1 := 0
	switch c.Leg {
	case "pair":
		pairRespHeader = nil
		if c.RespExt {
			pairRespHeader = http.Header{}
			pairRespHeader.Set("Sec-WebSocket-Extensions", "permessage-deflate; server_no_context_takeover; client_no_context_takeover")
			defer func() { pairRespHeader = nil }()
		}
		client, server, trC, trS, head, err := pairUp(c.DialerOn, c.UpgraderOn, nil)
		if err != nil && c.RespExt {
			o.Class("pair_app_extension_header_refused")
			o.Class("leg_pair")
			return nil
		}
		if err != nil {
			return fmt.Errorf("handshake between Dialer(compression=%v) and Upgrader(compression=%v) failed: %v", c.DialerOn, c.UpgraderOn, err)
		}
		resp, perr := wsref.ParseResponseStrict(head)
		if perr != nil {
			return fmt.Errorf("101 not well-formed: %v", perr)
		}
		pmd, both, _ := announced(resp.Get("Sec-WebSocket-Extensions"))
		if pmd && !(c.DialerOn && c.UpgraderOn) {
			return fmt.Errorf("101 announces permessage-deflate although Dialer=%v Upgrader=%v", c.DialerOn, c.UpgraderOn)
		}
		if pmd && !both {
			return fmt.Errorf("101 announces permessage-deflate without both no_context_takeover parameters: %q", resp.Get("Sec-WebSocket-Extensions"))
		}
		negotiated := pmd && both
		var held func() error
		for i, m := range c.Msgs {
			var err error
			var hold *func() error
			var mine func() error
			// a message can be held only across a message in the other direction
			if m.Hold && held == nil && i+1 < len(c.Msgs) && c.Msgs[i+1].FromClient != m.FromClient {
				hold = &mine
			}
			if m.FromClient {
				err = sendAndCheckHold(i, m, client, server, trC, trS, false, negotiated, &rsv1, hold)
			} else {
				err = sendAndCheckHold(i, m, server, client, trS, trC, true, negotiated, &rsv1, hold)
			}
			if err == nil && held != nil {
				err = held()
				held = nil
				o.Class("pair_reads_overlapped")
			}
			if err != nil {
				return fmt.Errorf("Dialer=%v Upgrader=%v: %w", c.DialerOn, c.UpgraderOn, err)
			}
			held = mine
		}
		if held != nil {
			if err := held(); err != nil {
				return fmt.Errorf("Dialer=%v Upgrader=%v: %w", c.DialerOn, c.UpgraderOn, err)
			}
		}
		if negotiated != (c.DialerOn && c.UpgraderOn) {
			o.Class("pair_both_on_but_not_negotiated")
		}
		o.ClassIf(c.DialerOn != c.UpgraderOn, "off_diagonal")
	case "server":
		tr := xport.NewScriptConn(nil, nil)
		w := &fakeRW{conn: tr, brw: bufio.NewReadWriter(bufio.NewReaderSize(tr, 4096), bufio.NewWriterSize(tr, 4096))}
		req := upgradeRequest(false)
		if c.Offer != nil {
			req.Header["Sec-Websocket-Extensions"] = c.Offer
		}
		u := websocket.Upgrader{EnableCompression: c.UpgraderOn, CheckOrigin: allowOrigin}
		conn, err := u.Upgrade(w, req, nil)
		if err != nil {
			return fmt.Errorf("Upgrade with extension offer %q failed: %v", c.Offer, err)
		}
		resp, perr := wsref.ParseResponseStrict(tr.Wrote)
		if perr != nil {
			return fmt.Errorf("101 not well-formed: %v", perr)
		}
		tr.ResetLog()
		pmd, both, _ := announced(resp.Get("Sec-WebSocket-Extensions"))
		exts, clean := wsref.ParseExtensions(c.Offer)
		offered := false
		for _, e := range exts {
			offered = offered || e.Name == "permessage-deflate"
		}
		if pmd && !c.UpgraderOn {
			return fmt.Errorf("server announced permessage-deflate although compression is not enabled")
		}
		if pmd && clean && !offered {
			return fmt.Errorf("server announced permessage-deflate although the client did not offer it (offer %q)", c.Offer)
		}
		if pmd {
			lenient := false
			for _, n := range wsref.ExtNamesLenient(c.Offer) {
				lenient = lenient || n == "permessage-deflate"
			}
			if !lenient {
				return fmt.Errorf("server announced permessage-deflate although the name only occurs inside a quoted-string of the offer %q", c.Offer)
			}
		}
		if clean && offered && c.UpgraderOn && !pmd {
			return fmt.Errorf("client offered permessage-deflate (%q) and the server enabled compression, but the 101 does not announce it", c.Offer)
		}
		if pmd && !both {
			return fmt.Errorf("server announced permessage-deflate without both no_context_takeover parameters: %q", resp.Get("Sec-WebSocket-Extensions"))
		}
		negotiated := pmd && both
		for i, m := range c.Msgs {
			if m.FromClient {
				dead, err := feedScripted(i, m, conn, tr, true, negotiated)
				if err != nil {
					return fmt.Errorf("server (announced=%v, offer %q): %w", pmd, c.Offer, err)
				}
				if dead {
					break
				}
			} else if err := sendAndCheck(i, m, conn, nil, tr, nil, true, negotiated, &rsv1); err != nil {
				return fmt.Errorf("server (announced=%v, offer %q): %w", pmd, c.Offer, err)
			}
		}
		o.ClassIf(len(c.Offer) > 0 && strings.Contains(strings.Join(c.Offer, ","), ";"), "offer_with_parameters")
	case "client":
		reply := "HTTP/1.1 101 Switching Protocols\r\nUpgrade: websocket\r\nConnection: Upgrade\r\nSec-WebSocket-Accept: $ACCEPT\r\n"
		for _, l := range c.Announce {
			reply += "Sec-WebSocket-Extensions: " + l + "\r\n"
		}
		reply += "\r\n"
		rc := newReplyConn([]byte(reply))
		rc.ScriptConn.NoLog = false
		d := websocket.Dialer{NetDialContext: func(ctx context.Context, network, addr string) (net.Conn, error) { return rc, nil }, EnableCompression: c.DialerOn}
		conn, _, err := d.Dial("ws://example.com/", nil)
		pmd, both, clean := announced(c.Announce)
		if !clean {
			o.Class("client_unclean_announcement")
			return nil
		}
		unsolicited := !c.DialerOn && pmd
		if unsolicited {
			// The statement does not say whether a client that never offered the
			// extension must refuse such a reply, but the endpoints must still
			// agree: if Dial succeeds against a complete announcement the client
			// has to accept what the announcing server will send.
			o.Class("client_unsolicited_announcement")
			if err != nil || !both {
				return nil
			}
		}
		if pmd && !both {
			if err == nil {
				return fmt.Errorf("Dial accepted a 101 announcing permessage-deflate without both no_context_takeover parameters (%q): it would compress with context the peer does not expect", c.Announce)
			}
			o.Class("client_refused_incomplete_announcement")
			o.NonTrivial("")
			return nil
		}
		if err != nil {
			return fmt.Errorf("Dial failed against announcement %q: %v", c.Announce, err)
		}
		rc.ScriptConn.ResetLog()
		rc.ScriptConn.OnWrite = nil
		negotiated := pmd && both && (c.DialerOn || unsolicited)
		for i, m := range c.Msgs {
			if !m.FromClient {
				dead, err := feedScripted(i, m, conn, rc.ScriptConn, false, negotiated)
				if err != nil {
					return fmt.Errorf("client (announcement %q): %w", c.Announce, err)
				}
				if dead {
					break
				}
			} else if err := sendAndCheck(i, m, conn, nil, rc.ScriptConn, nil, false, negotiated, &rsv1); err != nil {
				return fmt.Errorf("client (announcement %q): %w", c.Announce, err)
			}
		}
		o.ClassIf(pmd, "reply_with_parameters")
	default:
		return errors.New("harness: unknown leg")
	}
	toggles := 0
	for _, m := range c.Msgs {
		if m.SetOn != 0 || m.SetLevel != -100 {
			toggles++
		}
	}
	o.Class("leg_" + c.Leg)
	o.ClassIf(rsv1 > 0, "rsv1_observed")
	o.ClassIf(toggles > 0, "toggled")
	if c.DialerOn != c.UpgraderOn || toggles > 0 || len(c.Offer) > 0 || len(c.Announce) > 0 {
		o.NonTrivial("")
	}
	return nil
}
