//go:build go1.25

package props

import (
	"errors"
	"fmt"
	"testing"
	"testing/synctest"
	"time"

	"pgregory.net/rapid"
)

// The stall leg of C16 runs inside a testing/synctest bubble: the peer goes
// silent at a generated stage and Dial must give up no later than the
// configured HandshakeTimeout / context deadline on the fake clock.

func genHSStall(t *rapid.T) HSPath {
	var c HSPath
	c.Path = rapid.SampledFrom([]string{"direct-ws", "direct-wss", "direct-wss-tlshook", "direct-ws-netdial", "http-proxy", "https-proxy", "https-proxy-tlshook", "socks5"}).Draw(t, "path")
	c.Secure = rapid.Bool().Draw(t, "secure")
	switch rapid.IntRange(0, 2).Draw(t, "limitkind") {
	case 0:
		c.HandshakeTimeoutMs = rapid.SampledFrom([]int{50, 1000, 7000, 45000}).Draw(t, "hto")
	case 1:
		c.CtxDeadlineMs = rapid.SampledFrom([]int{50, 1000, 7000, 45000}).Draw(t, "ctx")
	default:
		c.HandshakeTimeoutMs = rapid.SampledFrom([]int{1000, 7000}).Draw(t, "hto")
		c.CtxDeadlineMs = rapid.SampledFrom([]int{500, 9000}).Draw(t, "ctx")
	}
	stages := []string{"accept", "ws-reply", "ws-reply-head", "ws-error-body"}
	switch c.Path {
	case "direct-wss":
		stages = append(stages, "backend-tls")
	case "http-proxy", "https-proxy", "https-proxy-tlshook":
		stages = append(stages, "proxy-reply")
		if c.Secure {
			stages = append(stages, "backend-tls")
		}
	case "socks5":
		stages = append(stages, "socks-reply")
		if c.Secure {
			stages = append(stages, "backend-tls")
		}
	}
	c.Stall = rapid.SampledFrom(stages).Draw(t, "stall")
	c.OnlyK = -1
	switch rapid.IntRange(0, 5).Draw(t, "slow_setup") {
	case 0:
		// the dial function hands over its connection only after the limit has
		// passed: the library owns that connection and must close it
		c.DialDelayMs = rapid.SampledFrom([]int{60000, 100000}).Draw(t, "dial_delay")
	case 1:
		// the Proxy callback eats part of the budget
		c.ProxyDelayMs = rapid.SampledFrom([]int{20, 300}).Draw(t, "proxy_delay")
	}
	return c
}

func checkC16Stall(c HSPath, o *Obs) error {
	var result error
	synctest.Test(concT, func(*testing.T) {
		start := time.Now()
		done := make(chan *dialOutcome, 1)
		go func() { done <- dialPath(c, nil) }()
		limit := time.Duration(c.HandshakeTimeoutMs) * time.Millisecond
		if dl := time.Duration(c.CtxDeadlineMs) * time.Millisecond; dl > 0 && (limit == 0 || dl < limit) {
			limit = dl
		}
		var r *dialOutcome
		select {
		case r = <-done:
		case <-time.After(limit + time.Hour):
			failHard(fmt.Errorf("C16: %s, peer silent at stage %q, limit %v: Dial had not returned an hour (fake clock) after the limit - the handshake is not bounded by the configured timeout", c.Path, c.Stall, limit))
		}
		elapsed := time.Since(start)
		defer r.cleanup()
		if r.err == nil || r.conn != nil {
			result = fmt.Errorf("%s, peer silent at %q: Dial returned conn=%v err=%v", c.Path, c.Stall, r.conn != nil, r.err)
			return
		}
		// callbacks that cannot be interrupted extend the bound to their own duration
		bound := limit
		for _, d := range []int{c.DialDelayMs, c.ProxyDelayMs} {
			if dd := time.Duration(d) * time.Millisecond; dd > bound {
				bound = dd
			}
		}
		if elapsed > bound {
			limit = bound
			result = fmt.Errorf("%s, peer silent at stage %q: Dial gave up after %v, later than the configured limit %v", c.Path, c.Stall, elapsed, limit)
			return
		}
		if r.end != nil {
			// crypto/tls (Go >= 1.25) closes the underlying connection of an
			// interrupted handshake from a context.AfterFunc goroutine that may
			// still be running when Dial returns: let the bubble settle first.
			synctest.Wait()
			_, closed, _, _, _ := r.end.State()
			if closed == 0 {
				result = fmt.Errorf("%s, peer silent at %q: Dial timed out (%v) but did not close the network connection", c.Path, c.Stall, r.err)
				return
			}
		}
		// let the peer goroutine observe the close before the bubble ends
		r.end.Close()
		synctest.Wait()
	})
	if result != nil {
		return result
	}
	o.ClassIf(c.DialDelayMs > 0, "dial_function_slower_than_the_limit")
	o.ClassIf(c.ProxyDelayMs > 0, "slow_proxy_callback")
	o.Class("stall_" + c.Stall)
	o.Class("path_" + c.Path)
	o.NonTrivial("")
	return nil
}

var _ = errors.New
