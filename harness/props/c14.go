package props

import (
	"bytes"
	"context"
	"encoding/base64"
	"errors"
	"fmt"
	"io"
	"net"
	"net/http"
	"net/http/cookiejar"
	"net/url"
	"strings"
	"sync"

	"github.com/gorilla/websocket"
	"pgregory.net/rapid"

	"verifharness/wsref"
)

// ReplySpec describes the scripted server's reply to the second dial.
type ReplySpec struct {
	Status  int      `json:"status"`
	Reason  string   `json:"reason"`
	Upgrade []string `json:"upgrade"`    // header lines (nil = absent)
	Conn    []string `json:"connection"` // header lines
	// Accept: ok | absent | truncated | otherkey | stale | trailing | lower | upper | spaces | two
	Accept string   `json:"accept"`
	Extra  []string `json:"extra,omitempty"` // further raw header lines "Name: value"
	// Body for non-101 replies.
	BodyLen int  `json:"body_len"`
	Chunked bool `json:"chunked,omitempty"`
	// HeaderCase: write protocol header names in another case.
	LowerNames bool `json:"lower_names,omitempty"`
	// ExtLine: an additional Sec-WebSocket-Extensions header line (replies that
	// are otherwise valid become unclassified with it: C15 judges announcements).
	ExtLine string `json:"ext_line,omitempty"`
}

// ClientHSCase is one client handshake.
type ClientHSCase struct {
	Scheme   string `json:"scheme"`
	UserInfo string `json:"userinfo,omitempty"`
	Host     string `json:"host"`
	Path     string `json:"path"`
	Query    string `json:"query"`
	// SubsEmpty: Dialer.Subprotocols is an empty non-nil slice when no
	// subprotocol is requested.
	SubsEmpty bool `json:"subs_empty,omitempty"`
	// Frag: the URL carries a #fragment, which is the client's own business
	// and never part of the request-target.
	Frag     string              `json:"frag,omitempty"`
	Subs     []string            `json:"subs,omitempty"`
	Compress bool                `json:"compress"`
	Header   map[string][]string `json:"header,omitempty"`
	Reply    ReplySpec           `json:"reply"`
	// Chunks: how the transport splits the second reply into reads; RBuf: ReadBufferSize.
	Chunks []int `json:"chunks,omitempty"`
	RBuf   int   `json:"rbuf,omitempty"`
	// ViaNewClient: both handshakes go through the deprecated NewClient
	// function over a connection the caller supplies (ws scheme, no
	// subprotocols, no compression only).
	ViaNewClient bool `json:"via_newclient,omitempty"`
	// Jar: the Dialer has a cookie jar holding one cookie for the URL; the
	// caller's own Cookie header values must all still be sent.
	Jar bool `json:"jar,omitempty"`
}

var c14Keys sync.Map // every challenge key seen in this process

func genClientHSCase(t *rapid.T) ClientHSCase {
	var c ClientHSCase
	c.Scheme = rapid.SampledFrom([]string{"ws", "ws", "ws", "ws", "ws", "ws", "ws", "wss", "wss", "wss", "wss", "WS", "http", "https", "", "ftp", "wsx"}).Draw(t, "scheme")
	if rapid.IntRange(0, 14).Draw(t, "userinfo") == 0 {
		c.UserInfo = rapid.SampledFrom([]string{"user", "user:pw", ":", "a%40b"}).Draw(t, "uinfo")
	}
	c.Host = rapid.SampledFrom([]string{"example.com", "example.com:8080", "Example.COM", "127.0.0.1:9000", "[::1]:8080", "[2001:db8::1]", "a-b.c.test:80", "localhost:443"}).Draw(t, "host")
	segs := rapid.SliceOfN(rapid.SampledFrom([]string{"a", "chat", "v1.2", "~u", "a%20b", "x:y", "@", "a,b;c=d", "%E4%B8%96", "!$&'()*+", "-._", "%2F"}), 0, 3).Draw(t, "segs")
	if len(segs) > 0 || rapid.Bool().Draw(t, "slash") {
		c.Path = "/" + strings.Join(segs, "/")
		if len(segs) > 0 && rapid.IntRange(0, 4).Draw(t, "trailslash") == 0 {
			c.Path += "/"
		}
	}
	if rapid.IntRange(0, 4).Draw(t, "has_frag") == 0 {
		c.Frag = rapid.SampledFrom([]string{"f", "section-2", "a/b?c=d", "%23x", "!"}).Draw(t, "frag")
	}
	c.Query = rapid.SampledFrom([]string{"", "", "x=1", "a=b&c=d", "q=%20%26", "redirect=http://e.com/?x=y", "k", "a=b=c&&", "utf=%E2%9C%93", "plus=a+b"}).Draw(t, "query")
	c.Subs = rapid.SampledFrom([][]string{nil, nil, {"chat"}, {"chat", "superchat"}, {"v1.x"}}).Draw(t, "subs")
	c.Compress = rapid.Bool().Draw(t, "compress")
	c.SubsEmpty = rapid.Bool().Draw(t, "subs_empty")
	if rapid.Bool().Draw(t, "hasheader") {
		c.Header = map[string][]string{}
		n := rapid.IntRange(1, 3).Draw(t, "nheader")
		for i := 0; i < n; i++ {
			name := rapid.SampledFrom([]string{"Origin", "Cookie", "X-Custom", "Authorization", "User-Agent", "Host", "Sec-Websocket-Protocol", "Upgrade", "Connection", "Sec-Websocket-Key", "Sec-Websocket-Version", "Sec-Websocket-Extensions", "upgrade", "connection", "CONNECTION"}).Draw(t, "hname")
			if i > 0 || rapid.IntRange(0, 2).Draw(t, "benign") > 0 {
				name = rapid.SampledFrom([]string{"Origin", "Cookie", "X-Custom", "Authorization", "User-Agent", "Host", "Sec-Websocket-Protocol"}).Draw(t, "hname_benign")
			}
			val := rapid.SampledFrom([]string{"http://example.com", "a=b; c=d", "value with spaces", "override.test:81", "chat, other", "permessage-deflate", "x"}).Draw(t, "hval")
			if name == "Host" {
				val = rapid.SampledFrom([]string{"override.test:81", "other.example", "[::2]:99"}).Draw(t, "hostval")
			}
			c.Header[name] = []string{val}
			if name == "Cookie" && rapid.Bool().Draw(t, "twocookies") {
				c.Header[name] = []string{val, "e=f"}
			}
			if name == "Sec-Websocket-Protocol" && rapid.Bool().Draw(t, "twoprotolines") {
				c.Header[name] = []string{val, "second, third"}
			}
		}
	}
	r := &c.Reply
	mode := rapid.SampledFrom([]int{0, 0, 1, 1, 1, 2}).Draw(t, "replymode") // 0 valid, 1 one defect, 2 free
	defect := -1
	if mode == 1 {
		defect = rapid.IntRange(0, 3).Draw(t, "defect")
	}
	ok := func(i int, label string) bool {
		switch mode {
		case 0:
			return true
		case 1:
			return i != defect
		}
		return rapid.IntRange(0, 3).Draw(t, label) > 0
	}
	if ok(0, "status_ok") {
		r.Status = 101
		r.Reason = rapid.SampledFrom([]string{"Switching Protocols", "Switching Protocols", "OK", ""}).Draw(t, "reason")
	} else {
		r.Status = rapid.SampledFrom([]int{200, 204, 301, 302, 400, 401, 403, 404, 410, 426, 500, 503, 100, 102, 201}).Draw(t, "status")
		r.Reason = "Whatever"
	}
	if ok(1, "upgrade_ok") {
		r.Upgrade = rapid.SampledFrom([][]string{{"websocket"}, {"WebSocket"}, {"WEBSOCKET"}, {"foo, websocket"}, {"websocket , bar"}, {"foo", "websocket"}, {"x~y, websocket"}, {"a`b,\tWebSocket"}, {"!#$%&'*+-.^_`|~, websocket"}, {"~", "websocket, `"}}).Draw(t, "upg")
	} else {
		r.Upgrade = rapid.SampledFrom([][]string{nil, {"websockets"}, {"web socket"}, {"xwebsocket"}, {"h2c"}, {""}}).Draw(t, "upg_bad")
	}
	if ok(2, "conn_ok") {
		r.Conn = rapid.SampledFrom([][]string{{"Upgrade"}, {"upgrade"}, {"UPGRADE"}, {"keep-alive, Upgrade"}, {"Upgrade\t,x"}, {"foo", "upgrade"}, {"x~y, Upgrade"}, {"a`b,\tupgrade"}, {"!#$%&'*+-.^_`|~, Upgrade"}, {"~", "upgrade, `"}}).Draw(t, "conn")
	} else {
		r.Conn = rapid.SampledFrom([][]string{nil, {"close"}, {"upgraded"}, {"keep-alive"}, {"up grade"}, {""}}).Draw(t, "conn_bad")
	}
	if ok(3, "accept_ok") {
		r.Accept = rapid.SampledFrom([]string{"ok", "ok", "ok", "spaces"}).Draw(t, "accept")
	} else {
		r.Accept = rapid.SampledFrom([]string{"absent", "truncated", "otherkey", "stale", "trailing", "lower", "upper", "empty", "prefix", "noncanonical", "noncanonical", "second_line_right"}).Draw(t, "accept_bad")
	}
	if rapid.IntRange(0, 3).Draw(t, "hasextra") == 0 {
		r.Extra = []string{"X-Server: test", "Set-Cookie: s=1"}
	}
	if len(c.Subs) > 0 && rapid.Bool().Draw(t, "selproto") {
		r.Extra = append(r.Extra, "Sec-WebSocket-Protocol: "+c.Subs[0])
	}
	if rapid.IntRange(0, 3).Draw(t, "extline") == 0 {
		r.ExtLine = rapid.SampledFrom([]string{"permessage-deflate", "permessage-deflate; server_no_context_takeover", "permessage-deflate; server_no_context_takeover; client_no_context_takeover", "foo; a=b", "permessage-deflate; ="}).Draw(t, "extline_v")
	}
	r.BodyLen = rapid.SampledFrom([]int{0, 0, 1, 100, 1023, 1024, 1025, 2048, 5000}).Draw(t, "bodylen")
	r.Chunked = rapid.IntRange(0, 3).Draw(t, "chunked") == 0
	r.LowerNames = rapid.IntRange(0, 3).Draw(t, "lowernames") == 0
	c.Chunks = genChunks(t, "chunks", 600)
	c.RBuf = rapid.SampledFrom([]int{0, 0, 128, 256, 1024}).Draw(t, "rbuf")
	c.ViaNewClient = rapid.IntRange(0, 2).Draw(t, "via_newclient") == 0
	c.Jar = rapid.IntRange(0, 2).Draw(t, "jar") == 0
	return c
}

func (c ClientHSCase) url() string {
	u := c.Scheme
	if u != "" {
		u += ":"
	}
	u += "//"
	if c.UserInfo != "" {
		u += c.UserInfo + "@"
	}
	u += c.Host + c.Path
	if c.Query != "" {
		u += "?" + c.Query
	}
	if c.Frag != "" {
		u += "#" + c.Frag
	}
	return u
}

func bodyBytes(n int) []byte {
	b := make([]byte, n)
	for i := range b {
		b[i] = byte('a' + i%23)
	}
	return b
}

type parsedReq struct {
	method, target, proto string
	names, values         []string
}

func (p *parsedReq) get(name string) []string {
	var out []string
	for i, n := range p.names {
		if wsref.EqualFoldASCII(n, name) {
			out = append(out, p.values[i])
		}
	}
	return out
}

func parseReqStrict(b []byte) (*parsedReq, error) {
	s := string(b)
	if !strings.HasSuffix(s, "\r\n\r\n") {
		return nil, errors.New("request head does not end with a blank line")
	}
	lines := strings.Split(strings.TrimSuffix(s, "\r\n\r\n"), "\r\n")
	for _, l := range lines {
		if strings.ContainsAny(l, "\r\n") {
			return nil, fmt.Errorf("bare CR/LF in request line %q", l)
		}
	}
	parts := strings.Split(lines[0], " ")
	if len(parts) != 3 {
		return nil, fmt.Errorf("malformed request line %q", lines[0])
	}
	p := &parsedReq{method: parts[0], target: parts[1], proto: parts[2]}
	for _, l := range lines[1:] {
		k, v, ok := strings.Cut(l, ":")
		if !ok || !wsref.IsToken(k) {
			return nil, fmt.Errorf("malformed header line %q", l)
		}
		p.names = append(p.names, k)
		p.values = append(p.values, strings.Trim(v, " \t"))
	}
	return p, nil
}

func checkC14(c ClientHSCase, o *Obs) error {
	dials := 0
	var rc *replyConn
	var key1, key2 string
	var sentReply []byte
	var sentBody []byte
	hook := func(ctx context.Context, network, addr string) (net.Conn, error) {
		dials++
		rc = newReplyConn()
		if dials == 2 {
			rc = newReplyConnChunked(c.Chunks)
		}
		n := dials
		rc.ReplyFunc = func(_ int, req []byte) []byte {
			k := headerValue(req, "Sec-WebSocket-Key")
			if n == 1 {
				key1 = k
				return bytes.ReplaceAll([]byte(okHandshake), []byte("$ACCEPT"), []byte(wsref.AcceptKey(k)))
			}
			if n >= 3 {
				return []byte("HTTP/1.1 403 Forbidden\r\nContent-Length: 1500\r\n\r\n" + strings.Repeat("z", 1500))
			}
			key2 = k
			sentReply, sentBody = buildReply(c.Reply, k, key1, c.Compress)
			return sentReply
		}
		return rc, nil
	}
	d := websocket.Dialer{NetDialContext: hook, NetDialTLSContext: hook, Subprotocols: c.Subs, EnableCompression: c.Compress, ReadBufferSize: c.RBuf}
	if len(c.Subs) == 0 && c.SubsEmpty {
		d.Subprotocols = []string{} // no subprotocols, said with an empty slice instead of nil
	}
	if c.Jar {
		if jar, jerr := cookiejar.New(nil); jerr == nil {
			for _, sch := range []string{"http", "https"} {
				jar.SetCookies(&url.URL{Scheme: sch, Host: c.Host, Path: "/"}, []*http.Cookie{{Name: "gorilla", Value: "ws", Path: "/"}})
			}
			d.Jar = jar
		}
	}
	var hdr http.Header
	if c.Header != nil {
		hdr = http.Header{}
		for k, vs := range c.Header {
			hdr[k] = append([]string(nil), vs...)
		}
	}
	scheme := strings.ToLower(c.Scheme)
	badURL := (scheme != "ws" && scheme != "wss") || c.UserInfo != ""
	owned := ""
	for k := range c.Header {
		switch k {
		case "Upgrade", "Connection", "Sec-Websocket-Key", "Sec-Websocket-Version", "Sec-Websocket-Extensions":
			owned = k
		case "Sec-Websocket-Protocol":
			if len(c.Subs) > 0 {
				owned = k
			}
		}
	}
	dial := func() (*websocket.Conn, *http.Response, error) { return d.Dial(c.url(), hdr) }
	if pu, perr := url.Parse(c.url()); c.ViaNewClient && perr == nil && !badURL && owned == "" && scheme == "ws" && len(c.Subs) == 0 && !c.Compress {
		o.Class("via_NewClient")
		dial = func() (*websocket.Conn, *http.Response, error) {
			nc, _ := hook(context.Background(), "tcp", pu.Host)
			return websocket.NewClient(nc, pu, hdr, c.RBuf, 0)
		}
	}
	// --- first dial: plain valid reply (also provides the stale Accept value)
	conn1, _, err1 := dial()
	if badURL || owned != "" {
		if err1 == nil || conn1 != nil {
			return fmt.Errorf("Dial(%q) with caller header %q succeeded; it must be refused", c.url(), owned)
		}
		if dials != 0 {
			return fmt.Errorf("Dial(%q) (bad scheme/userinfo=%v, protocol-owned caller header %q) was refused only after %d network dial(s)", c.url(), badURL, owned, dials)
		}
		o.ClassIf(badURL, "refused_url")
		o.ClassIf(owned != "", "refused_owned_header")
		return nil
	}
	if err1 != nil || conn1 == nil {
		return fmt.Errorf("Dial(%q) against a valid 101 reply failed: %v", c.url(), err1)
	}
	if rc.Starved > 0 {
		return fmt.Errorf("Dial(%q): after the complete valid 101 reply Dial asked the connection for more input %d time(s) before returning; a server that waits for the client to speak first would never get the chance", c.url(), rc.Starved)
	}
	req1 := rc.Reqs
	if len(req1) != 1 {
		return fmt.Errorf("first dial wrote %d requests", len(req1))
	}
	if err := checkClientRequest(c, req1[0], o); err != nil {
		return err
	}
	// --- second dial on the same Dialer: the scripted reply
	conn2, resp2, err2 := dial()
	if dials != 2 {
		return fmt.Errorf("second dial made %d network dials", dials-1)
	}
	// the request of a repeated dial (same Dialer, same caller header map) is
	// held to the same standard as the first
	if len(rc.Reqs) != 1 {
		return fmt.Errorf("second dial wrote %d requests", len(rc.Reqs))
	}
	if err := checkClientRequest(c, rc.Reqs[0], o); err != nil {
		return fmt.Errorf("second dial with the same Dialer and header map: %w", err)
	}
	if key1 == key2 || key2 == "" {
		return fmt.Errorf("the same challenge key %q was sent on two dials of one Dialer", key2)
	}
	for _, k := range []string{key1, key2} {
		raw, err := base64.StdEncoding.DecodeString(k)
		if err != nil || len(raw) != 16 {
			return fmt.Errorf("challenge key %q is not base64 of 16 bytes", k)
		}
		if _, dup := c14Keys.LoadOrStore(k, true); dup {
			return fmt.Errorf("challenge key %q was used before in this run", k)
		}
	}
	r := c.Reply
	ut, uclean := wsref.TokenList(r.Upgrade)
	ct, cclean := wsref.TokenList(r.Conn)
	acceptOK := r.Accept == "ok" || r.Accept == "spaces"
	valid := r.Status == 101 && wsref.HasToken(ut, "websocket") && wsref.HasToken(ct, "upgrade") && acceptOK
	// net/http deletes the Connection header of a response that carries the
	// "close" token before the library sees it: such a reply is not classified.
	unspec := (!uclean || !cclean || wsref.HasToken(ct, "close")) && r.Status == 101 && acceptOK
	if wsref.HasToken(ct, "close") {
		valid = false
	}
	if valid && r.ExtLine != "" {
		valid, unspec = false, true
	}
	o.ClassIf(!valid && !unspec && r.ExtLine != "", "invalid_reply_with_extension_header")
	defects := 0
	if r.Status != 101 {
		defects++
	}
	if !wsref.HasToken(ut, "websocket") {
		defects++
	}
	if !wsref.HasToken(ct, "upgrade") {
		defects++
	}
	if !acceptOK {
		defects++
	}
	switch {
	case unspec && !valid:
		o.Class("reply_unspecified")
	case valid:
		o.Class("reply_valid")
		if err2 != nil || conn2 == nil {
			return fmt.Errorf("valid 101 reply refused: %v; reply %q", err2, abbrevStr(sentReply, 300))
		}
		if resp2 == nil || resp2.StatusCode != 101 {
			return fmt.Errorf("valid reply: returned response %v", resp2)
		}
	default:
		o.Class("reply_invalid")
		o.Class("accept_" + r.Accept)
		if defects == 1 {
			o.NonTrivial("")
			o.Class("reply_exactly_one_defect")
		}
		if conn2 != nil || err2 == nil {
			return fmt.Errorf("Dial returned a connection although the reply does not prove acceptance (status %d, Upgrade %q, Connection %q, Accept %s); reply %q", r.Status, r.Upgrade, r.Conn, r.Accept, abbrevStr(sentReply, 300))
		}
		if !errors.Is(err2, websocket.ErrBadHandshake) {
			return fmt.Errorf("bad reply (status %d, accept %s): error %q, want ErrBadHandshake", r.Status, r.Accept, err2)
		}
		if resp2 == nil {
			return errors.New("bad reply: no response returned with ErrBadHandshake")
		}
		if resp2.StatusCode != r.Status {
			return fmt.Errorf("bad reply: response status %d, sent %d", resp2.StatusCode, r.Status)
		}
		for _, l := range r.Extra {
			k, v, _ := strings.Cut(l, ": ")
			found := false
			for _, got := range resp2.Header.Values(k) {
				found = found || got == v
			}
			if !found {
				return fmt.Errorf("bad reply: response header %s: %s not reported (got %q)", k, v, resp2.Header.Values(k))
			}
		}
		// the response belongs to the caller: another failed dial in between
		// must not change it
		keepBody := append([]byte(nil), sentBody...)
		if len(keepBody) > 0 && len(c.Header)%2 == 0 {
			if c3, _, e3 := dial(); c3 != nil || e3 == nil {
				return errors.New("third dial (scripted 403) returned a connection")
			}
			o.Class("another_failed_dial_before_the_body_is_read")
		}
		body, _ := io.ReadAll(resp2.Body)
		want := keepBody
		if len(want) > 1024 {
			want = want[:1024]
		}
		if !bytes.Equal(body, want) {
			return fmt.Errorf("bad reply: response body has %d bytes, want the first %d of the %d sent (differs at %d)", len(body), len(want), len(sentBody), firstDiff(body, want))
		}
	}
	o.ClassIf(c.Query != "" || strings.Contains(c.Path, "%") || strings.HasPrefix(c.Host, "["), "url_query_escape_or_ipv6")
	if c.Query != "" || strings.Contains(c.Path, "%") || strings.HasPrefix(c.Host, "[") {
		o.NonTrivial("url")
	}
	return nil
}

func buildReply(r ReplySpec, key, staleKey string, compress bool) (reply, body []byte) {
	name := func(s string) string {
		if r.LowerNames {
			return strings.ToLower(s)
		}
		return s
	}
	var sb strings.Builder
	fmt.Fprintf(&sb, "HTTP/1.1 %d", r.Status)
	if r.Reason != "" {
		sb.WriteString(" " + r.Reason)
	} else {
		sb.WriteString(" ")
	}
	sb.WriteString("\r\n")
	for _, l := range r.Upgrade {
		fmt.Fprintf(&sb, "%s: %s\r\n", name("Upgrade"), l)
	}
	for _, l := range r.Conn {
		fmt.Fprintf(&sb, "%s: %s\r\n", name("Connection"), l)
	}
	acc := wsref.AcceptKey(key)
	switch r.Accept {
	case "ok":
	case "spaces":
		acc = "  " + acc + " \t"
	case "absent":
		acc = "\x00"
	case "truncated":
		acc = acc[:len(acc)-2]
	case "prefix":
		acc = acc[:10]
	case "otherkey":
		acc = wsref.AcceptKey("AAAAAAAAAAAAAAAAAAAAAA==")
	case "stale":
		acc = wsref.AcceptKey(staleKey)
	case "trailing":
		acc = acc + "x"
	case "noncanonical":
		// same 20 bytes for a lenient base64 decoder: the two unused bits of the
		// last symbol are not zero
		const alpha = "ABCDEFGHIJKLMNOPQRSTUVWXYZabcdefghijklmnopqrstuvwxyz0123456789+/"
		b := []byte(acc)
		b[26] = alpha[strings.IndexByte(alpha, b[26])|1+len(key)%3]
		if string(b) == acc {
			b[26] = alpha[strings.IndexByte(alpha, b[26])|2]
		}
		acc = string(b)
	case "lower":
		acc = strings.ToLower(acc)
		if acc == wsref.AcceptKey(key) {
			acc = "x" + acc
		}
	case "upper":
		acc = strings.ToUpper(acc)
		if acc == wsref.AcceptKey(key) {
			acc = "x" + acc
		}
	case "empty":
		acc = ""
	case "second_line_right":
		// two Accept lines: the first - "the" header, as Header.Get has it - is the
		// digest of another key, the right digest follows on a second line
		acc = wsref.AcceptKey("AAAAAAAAAAAAAAAAAAAAAA==") + "\r\n" + name("Sec-WebSocket-Accept") + ": " + acc
	}
	if acc != "\x00" {
		fmt.Fprintf(&sb, "%s: %s\r\n", name("Sec-WebSocket-Accept"), acc)
	}
	for _, l := range r.Extra {
		sb.WriteString(l + "\r\n")
	}
	if r.ExtLine != "" {
		fmt.Fprintf(&sb, "%s: %s\r\n", name("Sec-WebSocket-Extensions"), r.ExtLine)
	}
	if r.Status != 101 && r.Status >= 200 && r.Status != 204 {
		body = bodyBytes(r.BodyLen)
		if r.Chunked {
			sb.WriteString("Transfer-Encoding: chunked\r\n\r\n")
			rest := body
			for len(rest) > 0 {
				n := 700
				if n > len(rest) {
					n = len(rest)
				}
				fmt.Fprintf(&sb, "%x\r\n%s\r\n", n, rest[:n])
				rest = rest[n:]
			}
			sb.WriteString("0\r\n\r\n")
		} else {
			fmt.Fprintf(&sb, "Content-Length: %d\r\n\r\n", len(body))
			sb.Write(body)
		}
	} else {
		sb.WriteString("\r\n")
	}
	return []byte(sb.String()), body
}

func checkClientRequest(c ClientHSCase, raw []byte, o *Obs) error {
	p, err := parseReqStrict(raw)
	if err != nil {
		return fmt.Errorf("request sent by Dial is not well-formed: %v; request %q", err, abbrevStr(raw, 300))
	}
	if p.method != "GET" || p.proto != "HTTP/1.1" {
		return fmt.Errorf("request line %s ... %s", p.method, p.proto)
	}
	wantTarget := c.Path
	if wantTarget == "" {
		wantTarget = "/"
	}
	if c.Query != "" {
		wantTarget += "?" + c.Query
	}
	if p.target != wantTarget {
		return fmt.Errorf("request-target %q, want %q for URL %q (path and query must be preserved)", p.target, wantTarget, c.url())
	}
	wantHost := c.Host
	if hv, ok := c.Header["Host"]; ok && len(hv) > 0 {
		wantHost = hv[0]
	}
	if h := p.get("Host"); len(h) != 1 || !wsref.EqualFoldASCII(h[0], wantHost) {
		return fmt.Errorf("Host header %q, want %q", h, wantHost)
	}
	// a caller header spelled like a protocol-owned one but in another case
	// ("upgrade": "h2c") is a different map key; what becomes of it is not
	// stated - it may be refused or sent along - but it must not REPLACE what
	// the protocol needs
	sloppy := func(name string) []string {
		for k, vs := range c.Header {
			if k != http.CanonicalHeaderKey(name) && strings.EqualFold(k, name) {
				return vs
			}
		}
		return nil
	}
	one := func(name, want string) error {
		v := p.get(name)
		if extra := sloppy(name); extra != nil {
			o.Class("caller_header_spelled_like_an_owned_one")
			for _, x := range v {
				if wsref.EqualFoldASCII(x, want) {
					return nil
				}
			}
			return fmt.Errorf("the caller's header %q (another spelling of %s) replaced the protocol's own: request carries %s: %q, the handshake needs %q", extra, name, name, v, want)
		}
		if len(v) != 1 {
			return fmt.Errorf("%d %s headers in the request", len(v), name)
		}
		if want != "" && !wsref.EqualFoldASCII(v[0], want) {
			return fmt.Errorf("%s: %q, want %q", name, v[0], want)
		}
		return nil
	}
	if err := one("Upgrade", "websocket"); err != nil {
		return err
	}
	if err := one("Connection", "upgrade"); err != nil {
		return err
	}
	if err := one("Sec-WebSocket-Version", "13"); err != nil {
		return err
	}
	if err := one("Sec-WebSocket-Key", ""); err != nil {
		return err
	}
	if wsref.ValidKey(p.get("Sec-WebSocket-Key")[0]) != 1 {
		return fmt.Errorf("Sec-WebSocket-Key %q is not canonical base64 of 16 bytes", p.get("Sec-WebSocket-Key")[0])
	}
	protos, _ := wsref.TokenList(p.get("Sec-WebSocket-Protocol"))
	switch {
	case len(c.Subs) > 0:
		if strings.Join(protos, ",") != strings.Join(c.Subs, ",") {
			return fmt.Errorf("requested subprotocols %q, Dialer.Subprotocols %q", protos, c.Subs)
		}
	case c.Header["Sec-Websocket-Protocol"] != nil:
		want, _ := wsref.TokenList(c.Header["Sec-Websocket-Protocol"])
		if strings.Join(protos, ",") != strings.Join(want, ",") {
			return fmt.Errorf("requested subprotocols %q, caller header %q", protos, c.Header["Sec-Websocket-Protocol"])
		}
	default:
		if len(protos) != 0 {
			return fmt.Errorf("subprotocols %q requested but none configured", protos)
		}
		if lines := p.get("Sec-WebSocket-Protocol"); len(lines) != 0 {
			return fmt.Errorf("no subprotocol is requested, yet the request carries a Sec-WebSocket-Protocol header (%q): an empty list is not a token list", lines)
		}
	}
	exts, _ := wsref.ParseExtensions(p.get("Sec-WebSocket-Extensions"))
	offered := false
	for _, e := range exts {
		offered = offered || e.Name == "permessage-deflate"
	}
	if offered != c.Compress {
		return fmt.Errorf("permessage-deflate offered=%v but EnableCompression=%v (header %q)", offered, c.Compress, p.get("Sec-WebSocket-Extensions"))
	}
	if !c.Compress && len(p.get("Sec-WebSocket-Extensions")) != 0 {
		return fmt.Errorf("extension offer %q sent although compression is disabled", p.get("Sec-WebSocket-Extensions"))
	}
	if c.Jar && !c.ViaNewClient {
		// (a Cookie header of the caller replaces what the jar contributes;
		// nothing is stated about that, only that caller headers are included)
		if joined := strings.Join(p.get("Cookie"), "; "); c.Header["Cookie"] == nil && !strings.Contains(joined, "gorilla=ws") {
			return fmt.Errorf("the cookie the Dialer's jar holds for this URL is missing from the request (Cookie: %q)", p.get("Cookie"))
		}
		o.ClassIf(len(c.Header["Cookie"]) > 1, "jar_plus_several_caller_cookie_values")
	}
	for k, vs := range c.Header {
		if k == "Host" || k == "Sec-Websocket-Protocol" {
			continue
		}
		got := p.get(k)
		if k != http.CanonicalHeaderKey(k) {
			continue // see sloppy above
		}
		if k == "Cookie" {
			// net/http may join several cookie values on one line
			joined := strings.Join(got, "; ")
			for _, v := range vs {
				if !strings.Contains(joined, v) {
					return fmt.Errorf("caller cookie %q missing from the request (%q)", v, got)
				}
			}
			continue
		}
		if strings.Join(got, "|") != strings.Join(vs, "|") {
			return fmt.Errorf("caller header %s: %q arrived as %q", k, vs, got)
		}
	}
	return nil
}
