package props

import (
	"bufio"
	"context"
	"crypto/tls"
	"errors"
	"fmt"
	"net"
	"net/http"
	"net/url"
	"time"

	"github.com/gorilla/websocket"
	"pgregory.net/rapid"

	"verifharness/xport"
)

// HSPath is one handshake path with its failure/timeout settings.
type HSPath struct {
	// Path: direct-ws | direct-wss | http-proxy | https-proxy | socks5 | upgrade
	Path string `json:"path"`
	// Secure backend behind a proxy (wss through the tunnel).
	Secure bool `json:"secure,omitempty"`
	// HandshakeTimeoutMs / CtxDeadlineMs: 0 = none.
	HandshakeTimeoutMs int `json:"handshake_timeout_ms"`
	CtxDeadlineMs      int `json:"ctx_deadline_ms"`
	// Negative: "" | bad-ws-reply | proxy-refusal | bad-cert
	Negative string `json:"negative,omitempty"`
	// Refusal: index into the refusal replies (proxy-refusal).
	Refusal int `json:"refusal,omitempty"`
	// DialDelayMs: the custom dial function takes this long (ignoring the
	// context, as a legacy NetDial does) before it hands over the connection;
	// ProxyDelayMs: the Dialer.Proxy callback takes this long to decide.
	// Both only make sense on the fake clock of the stall leg.
	DialDelayMs  int `json:"dial_delay_ms,omitempty"`
	ProxyDelayMs int `json:"proxy_delay_ms,omitempty"`
	// Upgrade only: bytes pre-buffered in the hijacked reader, buffer sizes.
	PreBuffered int  `json:"prebuffered,omitempty"`
	ReadBuf     int  `json:"rbuf,omitempty"`
	HijackFails bool `json:"hijack_fails,omitempty"`
	// ServerDeadlines (upgrade): the HTTP server hands the connection over with
	// its own read (and write) deadline for the request still armed.
	ServerDeadlines bool `json:"server_deadlines,omitempty"`
	// Stall (fake-clock leg): stage at which the peer goes silent.
	Stall string `json:"stall,omitempty"`
	// OnlyK / OnlyKind restrict the fault enumeration (replay).
	OnlyK    int    `json:"only_k"`
	OnlyKind string `json:"only_kind,omitempty"`
}

var hsPaths = []string{"direct-ws", "direct-wss", "direct-wss-tlshook", "direct-ws-netdial", "http-proxy", "https-proxy", "https-proxy-tlshook", "socks5", "upgrade"}

func genHSPath(t *rapid.T) HSPath {
	var c HSPath
	c.Path = rapid.SampledFrom(hsPaths).Draw(t, "path")
	c.Secure = rapid.Bool().Draw(t, "secure")
	c.HandshakeTimeoutMs = rapid.SampledFrom([]int{0, 0, 30000, 60000, 3600000}).Draw(t, "hto")
	c.CtxDeadlineMs = rapid.SampledFrom([]int{0, 0, 45000, 50000, 7200000}).Draw(t, "ctx")
	c.Negative = rapid.SampledFrom([]string{"", "", "", "bad-ws-reply", "bad-ext-reply", "proxy-refusal", "bad-cert", "proxy-chatty", "alpn-h2", "unoffered-subprotocol"}).Draw(t, "negative")
	c.Refusal = rapid.IntRange(0, len(refusals)-1).Draw(t, "refusal")
	if c.Path == "upgrade" {
		c.PreBuffered = rapid.SampledFrom([]int{0, 0, 5, 40}).Draw(t, "prebuf")
		c.ReadBuf = rapid.SampledFrom([]int{0, 64, 1024}).Draw(t, "rbuf")
		c.HijackFails = rapid.IntRange(0, 9).Draw(t, "hijackfails") == 0
		c.ServerDeadlines = rapid.Bool().Draw(t, "server_deadlines")
		c.Negative = ""
	}
	c.OnlyK = -1
	return c
}

type dialOutcome struct {
	conn    *websocket.Conn
	err     error
	end     *xport.PipeEnd
	log     *PeerLog
	t0, t1  time.Time
	limit   time.Duration // effective handshake limit (0 = none)
	dialled int
}

func (c HSPath) peerSpec() (PeerSpec, bool, *url.URL) {
	spec := PeerSpec{BackendCert: "valid"}
	secure := false
	var proxyURL *url.URL
	switch c.Path {
	case "direct-wss":
		secure = true
		spec.BackendTLS = true
	case "direct-wss-tlshook":
		// NetDialTLSContext is trusted to have done TLS: the peer speaks plain
		secure = true
	case "https-proxy-tlshook":
		spec.ProxyKind = "https"
		proxyURL, _ = url.Parse("https://proxy.test")
		secure = c.Secure
		spec.BackendTLS = c.Secure
	case "http-proxy":
		spec.ProxyKind = "http"
		proxyURL, _ = url.Parse("http://user:pw@proxy.test:3128")
		secure = c.Secure
		spec.BackendTLS = c.Secure
	case "https-proxy":
		spec.ProxyKind = "https"
		spec.ProxyTLS = true
		proxyURL, _ = url.Parse("https://proxy.test")
		secure = c.Secure
		spec.BackendTLS = c.Secure
	case "socks5":
		spec.ProxyKind = "socks5"
		proxyURL, _ = url.Parse("socks5://user:pw@proxy.test:1080")
		secure = c.Secure
		spec.BackendTLS = c.Secure
	}
	switch c.Negative {
	case "bad-ws-reply":
		spec.BadWSReply = true
	case "bad-ext-reply":
		spec.BadExtReply = true
	case "proxy-refusal":
		if spec.ProxyKind == "http" || spec.ProxyKind == "https" {
			spec.ProxyReply = refusals[c.Refusal%len(refusals)]
		}
	case "bad-cert":
		spec.BackendCert = "otherhost"
	case "proxy-chatty":
		// the proxy's 200 reply arrives together with further bytes (a stray
		// CRLF): whether the client goes on or gives up is its business, what
		// it does with the connection is not
		if spec.ProxyKind == "http" || spec.ProxyKind == "https" {
			spec.ProxyReply = "HTTP/1.1 200 Connection established\r\n\r\n\r\n"
		}
	case "unoffered-subprotocol":
		// a valid 101 that selects a subprotocol nobody asked for
		spec.ReplyHeader = "Sec-WebSocket-Protocol: surprise"
	case "alpn-h2":
		// the application's tls.Config (shared with an http.Transport, say)
		// offers h2 and the backend selects it
		spec.BackendALPN = "h2"
	}
	spec.Stall = c.Stall
	return spec, secure, proxyURL
}

// dialPath performs one Dial over a fresh pipe with an optional fault.
func dialPath(c HSPath, fault *xport.PFault) *dialOutcome {
	spec, secure, proxyURL := c.peerSpec()
	out := &dialOutcome{}
	d := websocket.Dialer{TLSClientConfig: &tls.Config{RootCAs: getPKI().pool}}
	if c.Negative == "alpn-h2" {
		d.TLSClientConfig.NextProtos = []string{"h2", "http/1.1"}
	}
	hook := func(ctx context.Context, network, addr string) (net.Conn, error) {
		out.dialled++
		if c.DialDelayMs > 0 {
			time.Sleep(time.Duration(c.DialDelayMs) * time.Millisecond)
		}
		end, log := startPeer(spec)
		end.Fault = fault
		out.end, out.log = end, log
		return end, nil
	}
	switch c.Path {
	case "direct-wss-tlshook", "https-proxy-tlshook":
		d.NetDialTLSContext = hook
	case "direct-ws-netdial":
		d.NetDial = func(network, addr string) (net.Conn, error) { return hook(context.Background(), network, addr) }
	default:
		d.NetDialContext = hook
	}
	if proxyURL != nil || c.ProxyDelayMs > 0 {
		d.Proxy = func(*http.Request) (*url.URL, error) {
			if c.ProxyDelayMs > 0 {
				time.Sleep(time.Duration(c.ProxyDelayMs) * time.Millisecond)
			}
			return proxyURL, nil
		}
	}
	ctx := context.Background()
	var cancel func()
	if c.HandshakeTimeoutMs > 0 {
		d.HandshakeTimeout = time.Duration(c.HandshakeTimeoutMs) * time.Millisecond
		out.limit = d.HandshakeTimeout
	}
	if c.CtxDeadlineMs > 0 {
		dl := time.Duration(c.CtxDeadlineMs) * time.Millisecond
		ctx, cancel = context.WithTimeout(ctx, dl)
		defer cancel()
		if out.limit == 0 || dl < out.limit {
			out.limit = dl
		}
	}
	scheme := "ws"
	if secure {
		scheme = "wss"
	}
	out.t0 = time.Now()
	out.conn, _, out.err = d.DialContext(ctx, scheme+"://backend.test/x", nil)
	out.t1 = time.Now()
	return out
}

func (o *dialOutcome) cleanup() {
	if o.conn != nil {
		o.conn.Close()
	}
	if o.end != nil {
		o.end.Close()
		o.log.wait()
	}
}

func checkC16(c HSPath, o *Obs) error {
	if c.Path == "upgrade" {
		return checkC16Upgrade(c, o)
	}
	expectFail := false
	switch c.Negative {
	case "bad-ws-reply", "bad-ext-reply":
		expectFail = true
	case "proxy-refusal":
		expectFail = c.Path == "http-proxy" || c.Path == "https-proxy" || c.Path == "https-proxy-tlshook"
	case "bad-cert":
		spec, _, _ := c.peerSpec()
		expectFail = spec.BackendTLS
	}
	// ---- fault-free run
	base := dialPath(c, nil)
	ops, closed, rdl, wdl, _ := base.end.State()
	defer base.cleanup()
	if (base.conn == nil) == (base.err == nil) {
		return fmt.Errorf("%s: Dial returned conn=%v err=%v", c.Path, base.conn != nil, base.err)
	}
	if expectFail {
		if base.err == nil {
			return fmt.Errorf("%s with %s: Dial succeeded", c.Path, c.Negative)
		}
		if closed == 0 {
			return fmt.Errorf("%s: handshake failed (%s: %v) but the dialed network connection was not closed (%d operations logged) - connection leak", c.Path, c.Negative, base.err, len(ops))
		}
		o.Class("negative_" + c.Negative)
		o.NonTrivial("negative")
		return nil
	}
	eitherWay := c.Negative == "proxy-chatty" || c.Negative == "alpn-h2" || c.Negative == "unoffered-subprotocol"
	if base.err != nil && eitherWay {
		// giving up is allowed here; leaking the connection is not
		if closed == 0 {
			return fmt.Errorf("%s: handshake given up (%s: %v) but the dialed network connection was not closed (%d operations logged) - connection leak", c.Path, c.Negative, base.err, len(ops))
		}
		o.Class("negative_" + c.Negative + "_given_up")
		return nil
	}
	if base.err != nil {
		return fmt.Errorf("%s: fault-free Dial failed: %v (peer: %v)", c.Path, base.err, base.log.Errors)
	}
	if eitherWay {
		o.Class("negative_" + c.Negative + "_went_on")
	}
	if closed != 0 {
		return fmt.Errorf("%s: Dial succeeded but the network connection was closed", c.Path)
	}
	if !rdl.IsZero() || !wdl.IsZero() {
		return fmt.Errorf("%s (HandshakeTimeout %dms, context deadline %dms): Dial returned a connection with a handshake deadline still armed (read %v, write %v)", c.Path, c.HandshakeTimeoutMs, c.CtxDeadlineMs, !rdl.IsZero(), !wdl.IsZero())
	}
	// Operation-level deadline coverage is judged where the first hop is not
	// wrapped in a TLS session made by the library: during a TLS handshake the
	// library bounds the wait through the context (HandshakeContext), which is
	// judged on the fake clock by the stall leg instead.
	if base.limit > 0 && (c.Path == "direct-ws" || c.Path == "direct-ws-netdial" || c.Path == "direct-wss-tlshook" || c.Path == "http-proxy" || c.Path == "https-proxy-tlshook" || c.Path == "socks5") {
		latest := base.t1.Add(base.limit)
		for i, op := range ops {
			var armed time.Time
			switch op.Kind {
			case xport.OpRead:
				armed = op.ReadDeadline
			case xport.OpWrite:
				armed = op.WriteDeadline
			default:
				continue
			}
			if armed.IsZero() {
				return fmt.Errorf("%s (limit %v): transport %s #%d of the handshake ran with no deadline armed", c.Path, base.limit, op.Kind, i)
			}
			if armed.After(latest) {
				return fmt.Errorf("%s (limit %v): transport %s #%d ran under a deadline %v later than the configured limit", c.Path, base.limit, op.Kind, i, armed.Sub(latest))
			}
		}
		o.Class("deadline_coverage_checked")
	}
	n := len(ops)
	// ---- every operation x every fault kind
	for k := 0; k < n+2; k++ {
		if c.OnlyK >= 0 && k != c.OnlyK {
			continue
		}
		for _, kind := range []string{xport.FaultError, xport.FaultTimeout, xport.FaultEOF} {
			if c.OnlyKind != "" && kind != c.OnlyKind {
				continue
			}
			o.Evals(1)
			r := dialPath(c, &xport.PFault{K: k, Kind: kind})
			fops, fclosed, frdl, fwdl, fired := r.end.State()
			err := func() error {
				if (r.conn == nil) == (r.err == nil) {
					return fmt.Errorf("Dial returned conn=%v err=%v", r.conn != nil, r.err)
				}
				if !fired {
					o.Class("fault_beyond_last_operation")
					if r.err != nil {
						return fmt.Errorf("Dial failed although the fault never fired: %v", r.err)
					}
					return nil
				}
				faulted := fops[k].Kind
				if r.err == nil {
					// a failing Close / deadline call may legitimately be survivable only if the
					// connection that is returned is usable; the statement says failure => nil conn
					if faulted == xport.OpClose {
						return nil
					}
					if !frdl.IsZero() || !fwdl.IsZero() {
						return fmt.Errorf("Dial survived a failing %s and returned a connection with a deadline still armed", faulted)
					}
					o.Class("fault_survived_" + faulted.String())
					return nil
				}
				if fclosed == 0 {
					return fmt.Errorf("Dial failed (%v) but the dialed network connection was not closed - connection leak (%d operations; faulted operation: %s)", r.err, len(fops), faulted)
				}
				o.Class("fault_on_" + faulted.String())
				o.NonTrivial(fmt.Sprintf("%d/%s", k, kind))
				return nil
			}()
			r.cleanup()
			if err != nil {
				return fmt.Errorf("%s, fault %q at first-hop operation %d of %d: %w", c.Path, kind, k, n, err)
			}
		}
	}
	o.Class("path_" + c.Path)
	return nil
}

func checkC16Upgrade(c HSPath, o *Obs) error {
	run := func(fault *xport.WriteFault) (*websocket.Conn, error, *xport.ScriptConn, *fakeRW) {
		pre := make([]byte, c.PreBuffered)
		tr := xport.NewScriptConn(pre, nil)
		br := bufio.NewReaderSize(tr, 4096)
		if c.PreBuffered > 0 {
			br.Peek(1)
		}
		if c.ServerDeadlines && c.HandshakeTimeoutMs == 0 {
			// (with a HandshakeTimeout the library arms and clears its own write
			// deadline only; what becomes of the server's read deadline then is
			// not stated and not judged)
			// what a server with ReadTimeout / WriteTimeout leaves on a connection
			// whose Hijacker does not clear it (not counted as write-side operations)
			tr.SetReadDeadline(time.Now().Add(time.Hour))
		}
		tr.SetWriteFault(fault)
		tr.HonourWriteDeadline = true // a deadline armed for the 101 that lies in the past fails the write, as on a real connection
		w := &fakeRW{conn: tr, brw: bufio.NewReadWriter(br, bufio.NewWriterSize(tr, 4096))}
		if c.HijackFails {
			w.hijackErr = errors.New("hijack refused")
		}
		u := websocket.Upgrader{ReadBufferSize: c.ReadBuf, CheckOrigin: allowOrigin, HandshakeTimeout: time.Duration(c.HandshakeTimeoutMs) * time.Millisecond}
		conn, err := u.Upgrade(w, upgradeRequest(false), nil)
		return conn, err, tr, w
	}
	final := func(tr *xport.ScriptConn) (armed bool) {
		var rd, wd time.Time
		for _, op := range tr.Log {
			switch op.Kind {
			case xport.OpSetDeadline:
				rd, wd = op.Deadline, op.Deadline
			case xport.OpSetReadDeadline:
				rd = op.Deadline
			case xport.OpSetWriteDeadline:
				wd = op.Deadline
			}
		}
		return !rd.IsZero() || !wd.IsZero()
	}
	conn, err, tr, w := run(nil)
	if c.HijackFails {
		if conn != nil || err == nil {
			return errors.New("Upgrade succeeded although Hijack failed")
		}
		if w.status < 400 {
			return fmt.Errorf("Hijack failed: HTTP status %d written", w.status)
		}
		o.Class("hijack_fails")
		return nil
	}
	if err != nil || conn == nil {
		return fmt.Errorf("upgrade: fault-free Upgrade failed: %v", err)
	}
	if tr.Closed != 0 {
		return errors.New("Upgrade succeeded but closed the connection")
	}
	if final(tr) {
		return fmt.Errorf("Upgrade (HandshakeTimeout %dms, deadlines armed by the HTTP server at hijack time: %v) returned a connection with a deadline of the handshake phase still armed", c.HandshakeTimeoutMs, c.ServerDeadlines)
	}
	n := tr.WriteOps()
	for k := 0; k < n; k++ {
		if c.OnlyK >= 0 && k != c.OnlyK {
			continue
		}
		for _, kind := range wfaultKinds {
			if c.OnlyKind != "" && kind != c.OnlyKind {
				continue
			}
			o.Evals(1)
			conn, err, tr, _ := run(&xport.WriteFault{K: k, Kind: kind})
			if (conn == nil) == (err == nil) {
				return fmt.Errorf("upgrade, fault %q at operation %d: Upgrade returned conn=%v err=%v", kind, k, conn != nil, err)
			}
			if err == nil {
				return fmt.Errorf("upgrade, fault %q at write-side operation %d of %d: Upgrade reported success", kind, k, n)
			}
			if tr.Closed == 0 {
				return fmt.Errorf("upgrade, fault %q at write-side operation %d of %d (prebuffered %d): Upgrade failed after hijacking (%v) but did not close the connection - connection leak", kind, k, n, c.PreBuffered, err)
			}
			o.NonTrivial(fmt.Sprintf("%d/%s", k, kind))
		}
	}
	o.Class("path_upgrade")
	o.ClassIf(c.PreBuffered > 0, "upgrade_with_prebuffered_bytes")
	return nil
}
