//go:build !verif

package props

import "io"

// HookAvailable reports whether the library was built with the verif hooks.
const HookAvailable = false

func swapMaskRand(r io.Reader) io.Reader { return nil }
