//go:build go1.25

package props

import (
	"testing"

	"pgregory.net/rapid"
)

func TestC11Owned(t *testing.T) {
	concT = t
	RunProp(t, "C11", "owned-schedule", func(rt *rapid.T) ConcCase { return genConcCase(rt, false) }, checkC11)
}

func TestC11Free(t *testing.T) {
	concT = t
	RunProp(t, "C11", "free-running-race", func(rt *rapid.T) ConcCase { return genConcCase(rt, true) }, checkC11)
}

// The C09 clause "a close frame is the last thing written, under every
// interleaving with concurrent WriteControl callers and the reader's handlers"
// is judged by the same owned-schedule machinery, with schedules that always
// contain a close.
func TestC09Owned(t *testing.T) {
	concT = t
	RunProp(t, "C09", "owned-schedule", func(rt *rapid.T) ConcCase {
		c := genConcCase(rt, false)
		hasClose := c.PeerClose != 0
		for _, a := range c.Ctl {
			hasClose = hasClose || a.MT == 8
		}
		for _, s := range c.Steps {
			hasClose = hasClose || (s.MT == 8 && s.Op != "bad")
		}
		if !hasClose {
			c.Ctl = append(c.Ctl, CtlActor{MT: 8, Len: 20, DeadlineMs: 0})
		}
		return c
	}, checkC11)
}

func TestC16Stall(t *testing.T) {
	concT = t
	RunProp(t, "C16", "stall-fake-clock", genHSStall, checkC16Stall)
}

// TestC10Owned: C10's fail-stop clause under concurrency - the owned schedule
// additionally makes one pending transport write fail while other callers are
// queued on the write lock.
func TestC10Owned(t *testing.T) {
	concT = t
	RunProp(t, "C10", "owned-schedule-fault", func(rt *rapid.T) ConcCase {
		c := genConcCase(rt, false)
		if len(c.Ctl) == 0 {
			c.Ctl = append(c.Ctl, CtlActor{MT: 9, Len: 10})
		}
		// turn one grant into a failure (or append one)
		pos := rapid.IntRange(0, len(c.Sched)).Draw(rt, "fail_pos")
		placed := false
		for i := pos; i < len(c.Sched); i++ {
			if c.Sched[i].Kind == "grant" {
				c.Sched[i].Kind = "fail"
				placed = true
				break
			}
		}
		if !placed {
			c.Sched = append(c.Sched, SAct{Kind: "start", Arg: 0}, SAct{Kind: "start", Arg: 2}, SAct{Kind: "fail"})
		}
		return c
	}, checkC11)
}

// TestC04Owned: the "1002 is sent" clause of C04 after a history in which
// WriteControl callers timed out behind a writer held in the transport.
func TestC04Owned(t *testing.T) {
	concT = t
	RunProp(t, "C04", "after-contention", func(rt *rapid.T) ConcCase {
		c := genConcCase(rt, false)
		c.PeerViolation, c.ReaderLast, c.PeerClose = true, true, 0
		// no application close and no Close(): the 1002 must be the only close frame
		var steps []WStep
		for _, s := range c.Steps {
			if s.MT != 8 {
				steps = append(steps, s)
			}
		}
		if len(steps) == 0 {
			steps = []WStep{{Op: "msg", MT: 2, Data: Payload{Len: 300, Kind: "counter"}}}
		}
		c.Steps = steps
		var ctl []CtlActor
		for _, a := range c.Ctl {
			if a.MT != 8 {
				ctl = append(ctl, a)
			}
		}
		ctl = append(ctl, CtlActor{MT: 9, Len: 8, DeadlineMs: rapid.SampledFrom([]int{1, 50}).Draw(rt, "short_deadline")})
		c.Ctl = ctl
		var sched []SAct
		for _, a := range c.Sched {
			if a.Kind != "close" {
				sched = append(sched, a)
			}
		}
		// writer first, then the short-deadline caller, then let its deadline pass
		c.Sched = append([]SAct{{Kind: "start", Arg: 0}, {Kind: "start", Arg: 1 + len(ctl)}, {Kind: "sleep", Arg: 600}}, sched...)
		return c
	}, checkC11)
}
