package props

import (
	"bufio"
	"bytes"
	"encoding/base64"
	"errors"
	"fmt"
	"net/http"
	"sort"
	"strings"
	"time"

	"github.com/gorilla/websocket"
	"pgregory.net/rapid"

	"verifharness/wsref"
	"verifharness/xport"
)

// HSReq describes an upgrade request as raw header lines (nil = header absent).
type HSReq struct {
	Method string   `json:"method"`
	Host   string   `json:"host"`
	Conn   []string `json:"connection"`
	Upg    []string `json:"upgrade"`
	Ver    []string `json:"version"`
	Key    []string `json:"key"`
	Origin []string `json:"origin"`
	Proto  []string `json:"protocol"`
	Ext    []string `json:"extensions"`
}

// RespKV is an application response header (value as raw bytes).
type RespKV struct {
	Name string `json:"name"`
	Val  []byte `json:"val"`
}

// ServerHSCase is one server handshake.
type ServerHSCase struct {
	Req         HSReq    `json:"req"`
	Subs        []string `json:"subs"`
	SubsNil     bool     `json:"subs_nil"`
	Compression bool     `json:"compression"`
	ReadBuf     int      `json:"rbuf"`
	WriteBuf    int      `json:"wbuf"`
	Pool        bool     `json:"pool"`
	CheckOrigin string   `json:"check_origin"` // "" default | allow | deny
	Resp        []RespKV `json:"resp,omitempty"`
	RespNil     bool     `json:"resp_nil"`
	// ViaFunc: the deprecated package-level Upgrade function (an Upgrader that
	// admits every origin and leaves the error reply to the application).
	ViaFunc bool `json:"via_func,omitempty"`
	// Wrapped: the ResponseWriter is a middleware wrapper that reaches the
	// hijackable writer only through Unwrap().
	Wrapped bool `json:"wrapped,omitempty"`
	// WarmUp: the same Upgrader value has served another handshake before,
	// with other Subprotocols / compression settings, which the application
	// then changed to the ones of this case.
	WarmUp bool `json:"warm_up,omitempty"`
	// HSTimeout: Upgrader.HandshakeTimeout is one hour and the connection
	// honours write deadlines.
	HSTimeout bool `json:"hs_timeout,omitempty"`
}

func (r HSReq) raw() string {
	var sb strings.Builder
	fmt.Fprintf(&sb, "%s /chat?x=1 HTTP/1.1\r\nHost: %s\r\n", r.Method, r.Host)
	add := func(name string, lines []string) {
		for _, l := range lines {
			fmt.Fprintf(&sb, "%s: %s\r\n", name, l)
		}
	}
	add("Connection", r.Conn)
	add("Upgrade", r.Upg)
	add("Sec-WebSocket-Version", r.Ver)
	add("Sec-WebSocket-Key", r.Key)
	add("Origin", r.Origin)
	add("Sec-WebSocket-Protocol", r.Proto)
	add("Sec-WebSocket-Extensions", r.Ext)
	sb.WriteString("\r\n")
	return sb.String()
}

var owsPool = []string{"", " ", "  ", "\t", " \t "}

func caseVariant(t *rapid.T, s string) string {
	switch rapid.IntRange(0, 3).Draw(t, "casevar") {
	case 0:
		return s
	case 1:
		return strings.ToUpper(s)
	case 2:
		return strings.ToUpper(s[:1]) + s[1:]
	default:
		b := []byte(s)
		for i := range b {
			if rapid.Bool().Draw(t, "flip") && b[i] >= 'a' && b[i] <= 'z' {
				b[i] -= 32
			}
		}
		return string(b)
	}
}

// genTokenLines builds 0-2 header lines of token lists; with include the
// wanted token appears (in some case variant) in one of them.
func genTokenLines(t *rapid.T, want string, include bool, others, nearMiss []string) []string {
	// elements that are the wanted token only to a sloppy parser: glued to
	// white space that is not OWS (no-break space, ideographic space, NEL, VT,
	// FF), quoted, or carrying a parameter
	nearMiss = append(append([]string(nil), nearMiss...), "\u00a0"+want, "\u3000"+want, want+"\u00a0", "\u0085"+want, "\x0b"+want, want+"\x0c", `"`+want+`"`, want+";q=1", want+" x")
	// every character a token may contain occurs in the other elements
	others = append(append([]string(nil), others...), "x~y", "a`b", "!#$%&'*+-.^_`|~", "~", "`", "0|9")
	nl := rapid.IntRange(1, 2).Draw(t, "nlines")
	if !include && rapid.IntRange(0, 5).Draw(t, "absent") == 0 {
		return nil
	}
	lines := make([][]string, nl)
	for i := range lines {
		n := rapid.IntRange(0, 3).Draw(t, "nother")
		if nl == 1 && !include && n == 0 {
			n = 1
		}
		for j := 0; j < n; j++ {
			if rapid.IntRange(0, 2).Draw(t, "near") == 0 {
				lines[i] = append(lines[i], caseVariant(t, rapid.SampledFrom(nearMiss).Draw(t, "nearmiss")))
			} else {
				lines[i] = append(lines[i], rapid.SampledFrom(others).Draw(t, "other"))
			}
		}
	}
	if include {
		li := rapid.IntRange(0, nl-1).Draw(t, "wantline")
		pos := rapid.IntRange(0, len(lines[li])).Draw(t, "wantpos")
		el := append([]string{}, lines[li][:pos]...)
		el = append(el, caseVariant(t, want))
		lines[li] = append(el, lines[li][pos:]...)
	}
	var out []string
	for _, els := range lines {
		if len(els) == 0 {
			if nl == 1 {
				return nil
			}
			continue
		}
		var sb strings.Builder
		for i, e := range els {
			if i > 0 {
				sb.WriteString(rapid.SampledFrom(owsPool).Draw(t, "ows1") + "," + rapid.SampledFrom(owsPool).Draw(t, "ows2"))
			}
			sb.WriteString(e)
		}
		out = append(out, sb.String())
	}
	// rarely: junk that the statement does not classify
	if len(out) > 0 && rapid.IntRange(0, 14).Draw(t, "junk") == 0 {
		j := rapid.SampledFrom([]string{`"` + want + `"`, want + ";q=1", ", " + want, want + ",,x", want + " x", "(" + want + ")"}).Draw(t, "junkel")
		out[0] = j
	}
	return out
}

func genKey(t *rapid.T) []string {
	b64 := func(n int) string {
		return base64.StdEncoding.EncodeToString(rapid.SliceOfN(rapid.Byte(), n, n).Draw(t, "keybytes"))
	}
	switch rapid.IntRange(0, 12).Draw(t, "keykind") {
	case 0, 1, 2, 3, 4, 5:
		return []string{b64(16)}
	case 12:
		// 16 bytes, but the unused low bits of the last symbol are not zero: a
		// lenient base64 decoder accepts it; if the server does, the digest is
		// still that of the value as sent
		const alpha = "ABCDEFGHIJKLMNOPQRSTUVWXYZabcdefghijklmnopqrstuvwxyz0123456789+/"
		k := []byte(b64(16))
		k[21] = alpha[(strings.IndexByte(alpha, k[21])&0x30)|rapid.IntRange(1, 15).Draw(t, "lowbits")]
		return []string{string(k)}
	case 6:
		n := rapid.SampledFrom([]int{0, 1, 8, 15, 17, 18, 20, 24, 32}).Draw(t, "keylen")
		return []string{b64(n)}
	case 7:
		k := []byte(b64(16))
		k[rapid.IntRange(0, 21).Draw(t, "badpos")] = rapid.SampledFrom([]byte("!@-_ *")).Draw(t, "badch")
		return []string{string(k)}
	case 8:
		return []string{strings.TrimRight(b64(16), "=")}
	case 9:
		return nil
	case 10:
		return []string{b64(16) + "="}
	default:
		return []string{b64(16), b64(16)}
	}
}

var extOffers = [][]string{
	nil, nil,
	{"permessage-deflate"},
	{"permessage-deflate; client_max_window_bits"},
	{"permessage-deflate; server_no_context_takeover; client_no_context_takeover"},
	{"foo, permessage-deflate"},
	{"foo; a=b", `permessage-deflate; x="y"`},
	{"x-webkit-deflate-frame"},
	{"permessage-deflate2"},
	{"xpermessage-deflate"},
	{"permessage"},
	{`permessage-deflate; server_max_window_bits="10"`},
	{"bar; permessage-deflate"},
	{`foo; x="permessage-deflate"`},
	{"permessage-deflate; ="},
	{`"permessage-deflate"`},
	{"foo bar, permessage-deflate"},
	{"permessage-deflate ; client_max_window_bits , other"},
	{`x-ext; note="a\", permessage-deflate, y; k=\""`},
	{`foo; a="\\", permessage-deflate`},
	{`foo; a="x\"y", bar`},
	{`foo; a="permessage-deflate\"", bar; b="c"`},
	{"x-foo; mode=a~b, permessage-deflate"},
	{"x-foo; m`=!#$%&'*+-.^_|~, permessage-deflate; client_max_window_bits"},
	{`x-foo; q="1\5", permessage-deflate`},
	// a malformed element whose quoted-string holds commas around the name
	{`x-foo note="1, permessage-deflate, 2"`},
	{`x-foo; a b="1, permessage-deflate, 2"`},
	{`x-foo; =1; y=", permessage-deflate ,"`},
	{`x-foo; y=", permessage-deflate ," z`},
	{`a b c, x-foo; y="0, permessage-deflate; server_no_context_takeover; client_no_context_takeover, 1"`},
}

func genKeyOK(t *rapid.T, ok bool) []string {
	if ok {
		return []string{base64.StdEncoding.EncodeToString(rapid.SliceOfN(rapid.Byte(), 16, 16).Draw(t, "keybytes"))}
	}
	for {
		k := genKey(t)
		if len(k) != 1 || wsref.ValidKey(k[0]) != 1 {
			return k
		}
	}
}

func genServerHSCase(t *rapid.T) ServerHSCase {
	var c ServerHSCase
	r := &c.Req
	// mode 0: every element valid; 1: exactly one faulty element; 2: free mix
	mode := rapid.SampledFrom([]int{0, 0, 1, 1, 1, 2}).Draw(t, "mode")
	faulty := -1
	if mode == 1 {
		faulty = rapid.IntRange(0, 5).Draw(t, "faulty_element")
	}
	okFor := func(i int, label string) bool {
		switch mode {
		case 0:
			return true
		case 1:
			return i != faulty
		}
		return rapid.IntRange(0, 4).Draw(t, label) > 0
	}
	if okFor(0, "method_ok") {
		r.Method = "GET"
	} else {
		r.Method = rapid.SampledFrom([]string{"POST", "HEAD", "PUT", "get", "OPTIONS", "Get"}).Draw(t, "method")
	}
	r.Host = rapid.SampledFrom([]string{"example.com", "example.com:8080", "srv.test", "[::1]:9000", "10.0.0.1", "kiosk.example.org"}).Draw(t, "host")
	r.Conn = genTokenLines(t, "upgrade", okFor(1, "conn_ok"), []string{"keep-alive", "close", "TE", "foo"}, []string{"upgrades", "xupgrade", "up-grade", "upgrade2", "upgrad"})
	r.Upg = genTokenLines(t, "websocket", okFor(2, "upg_ok"), []string{"h2c", "foo", "IRC"}, []string{"websockets", "xwebsocket", "web-socket", "websocket2", "websocke"})
	if okFor(3, "ver_ok") {
		r.Ver = []string{"13"}
		if rapid.IntRange(0, 9).Draw(t, "ver_unspec") == 0 {
			r.Ver = rapid.SampledFrom([][]string{{"8, 13"}, {"13", "8"}, {"13, 13"}}).Draw(t, "version_list")
		}
	} else {
		r.Ver = rapid.SampledFrom([][]string{{"8"}, {"12"}, {"013"}, {"13.0"}, {""}, nil, {"8, 7"}, {"14"}, {"1 3"}, {"31"}, {"130"}}).Draw(t, "version")
	}
	r.Key = genKeyOK(t, okFor(4, "key_ok"))
	c.CheckOrigin = rapid.SampledFrom([]string{"", "", "", "allow"}).Draw(t, "checkorigin")
	if okFor(5, "origin_ok") {
		switch rapid.IntRange(0, 2).Draw(t, "originkind") {
		case 0:
			r.Origin = nil
		case 1:
			r.Origin = []string{rapid.SampledFrom([]string{"http://", "https://"}).Draw(t, "oscheme") + caseVariant(t, r.Host)}
		default:
			if c.CheckOrigin == "allow" {
				r.Origin = []string{"https://evil.example.net"}
			}
		}
	} else {
		if rapid.Bool().Draw(t, "deny") {
			c.CheckOrigin = "deny"
			r.Origin = rapid.SampledFrom([][]string{nil, {"http://" + r.Host}, {"https://evil.example.net"}}).Draw(t, "origin_any")
		} else {
			c.CheckOrigin = ""
			// incl. hosts that equal Host only under Unicode (not ASCII) case folding
			kelvin := strings.Replace(strings.Replace(r.Host, "k", "\u212a", 1), "s", "\u017f", 1)
			r.Origin = []string{rapid.SampledFrom([]string{"https://evil.example.net", "http://x" + r.Host, "http://" + r.Host + ".evil.net", "null", "http://" + kelvin, "https://" + strings.ToUpper(kelvin), "", "http://"}).Draw(t, "origin_foreign")}
			if r.Origin[0] == "http://"+r.Host {
				r.Origin[0] = "https://evil.example.net" // Host has neither k nor s
			}
		}
	}
	r.Proto = rapid.SampledFrom([][]string{nil, nil, {"chat"}, {"chat, superchat"}, {"superchat,chat"}, {" v2 ,  chat "}, {"other"}, {"chat", "v2"}, {"Chat"}, {"chat/v2"}, {"wamp@v2, x"}, {"mqtt=v2"}, {"v2;q=1"}, {"superchat chat"}, {"x(chat)"}, {"\"chat\""}}).Draw(t, "proto")
	r.Ext = rapid.SampledFrom(extOffers).Draw(t, "ext")
	switch rapid.IntRange(0, 3).Draw(t, "subskind") {
	case 0:
		c.SubsNil = true
	case 1:
		c.Subs = []string{}
	case 2:
		c.Subs = []string{"chat"}
	default:
		c.Subs = rapid.SampledFrom([][]string{{"v2", "chat"}, {"superchat", "chat"}, {"nope"}, {"chat", "v2", "superchat"}}).Draw(t, "subs")
	}
	c.Compression = rapid.Bool().Draw(t, "compression")
	c.ReadBuf = rapid.SampledFrom([]int{0, 0, 100, 1024}).Draw(t, "rbuf")
	c.WriteBuf = rapid.SampledFrom([]int{0, 0, 16, 1024, 4096}).Draw(t, "wbuf")
	c.Pool = rapid.Bool().Draw(t, "pool")
	if rapid.IntRange(0, 2).Draw(t, "respnil") == 0 {
		c.RespNil = true
	} else {
		n := rapid.IntRange(0, 3).Draw(t, "nresp")
		for i := 0; i < n; i++ {
			name := rapid.SampledFrom([]string{"Set-Cookie", "X-Custom", "X-Other", "Sec-Websocket-Protocol", "Sec-Websocket-Protocol", "Sec-Websocket-Extensions"}).Draw(t, "respname")
			if name == "Sec-Websocket-Extensions" {
				// the application tries to speak for the protocol: the library may
				// refuse that, but may not let it announce what was not negotiated
				c.Resp = append(c.Resp, RespKV{Name: name, Val: []byte(rapid.SampledFrom([]string{"permessage-deflate", "permessage-deflate; server_no_context_takeover; client_no_context_takeover", "x-other"}).Draw(t, "respext"))})
				continue
			}
			var val []byte
			switch rapid.IntRange(0, 3).Draw(t, "respvalkind") {
			case 0:
				val = []byte(rapid.SampledFrom([]string{"a=b; Path=/", "chat", "plain value", ""}).Draw(t, "respval"))
			case 1:
				val = []byte(rapid.SampledFrom([]string{"x\r\nX-Injected: yes", "chat\r\nX-Injected: yes", "a\nb", "a\rb", "\r\n\r\nHTTP/1.1 200 OK\r\n\r\n", "v\x00w", "tab\there"}).Draw(t, "respinj"))
			default:
				val = rapid.SliceOfN(rapid.Byte(), 0, 12).Draw(t, "resprand")
			}
			c.Resp = append(c.Resp, RespKV{Name: name, Val: val})
		}
	}
	c.Wrapped = rapid.IntRange(0, 3).Draw(t, "wrapped") == 0
	c.WarmUp = rapid.IntRange(0, 2).Draw(t, "warm_up") == 0
	c.HSTimeout = rapid.IntRange(0, 2).Draw(t, "hs_timeout") == 0
	if rapid.IntRange(0, 7).Draw(t, "via_func") == 0 {
		// the deprecated function has no Subprotocols / compression / pool / origin policy
		c.ViaFunc, c.CheckOrigin, c.SubsNil, c.Subs, c.Compression, c.Pool = true, "allow", true, nil, false, false
	}
	return c
}

type hsVerdict struct {
	verdict    int
	faults     []string
	notes      []string
	protoClean bool
	offers     []string
	extClean   bool
	pmdOffered bool
	unspec     bool // some other element of the request is not classified by the statement
}

// classifyHS is the reference "is this a valid opening handshake" classifier.
func classifyHS(c ServerHSCase) hsVerdict {
	var v hsVerdict
	r := c.Req
	unspec := false
	fault := func(f string) { v.faults = append(v.faults, f) }
	if r.Method != "GET" {
		fault("method")
	}
	// A list with malformed elements is not classified as a whole - but if not
	// even one of its well-formed elements is the wanted token, the header does
	// not contain it, whatever a parser makes of the rest (elements that merely
	// look like the token, e.g. preceded by a no-break space, are other strings).
	ct, cclean := wsref.TokenList(r.Conn)
	if !wsref.HasToken(ct, "upgrade") {
		fault("connection")
	} else if !cclean {
		unspec = true
	}
	ut, uclean := wsref.TokenList(r.Upg)
	if !wsref.HasToken(ut, "websocket") {
		fault("upgrade")
	} else if !uclean {
		unspec = true
	}
	vt, vclean := wsref.TokenList(r.Ver)
	switch {
	case len(r.Ver) == 1 && vclean && len(vt) == 1 && vt[0] == "13":
	case vclean && !wsref.HasToken(vt, "13"), len(r.Ver) == 0:
		fault("version")
	case !vclean && !strings.Contains(strings.Join(r.Ver, ","), "13"):
		fault("version")
	default:
		unspec = true // a list or several lines containing 13, or junk around it
	}
	switch {
	case len(r.Key) == 0:
		fault("key")
	case len(r.Key) > 1:
		unspec = true
	default:
		switch wsref.ValidKey(r.Key[0]) {
		case 0:
			fault("key")
		case -1:
			unspec = true
		}
	}
	switch c.CheckOrigin {
	case "allow":
	case "deny":
		fault("origin")
	default:
		if len(r.Origin) > 1 {
			unspec = true
		} else if len(r.Origin) == 1 {
			o := r.Origin[0]
			host := strings.TrimPrefix(strings.TrimPrefix(o, "https://"), "http://")
			if !wsref.EqualFoldASCII(host, r.Host) {
				fault("origin")
			}
		}
	}
	if r.Host == "" {
		unspec = true
	}
	v.offers, v.protoClean = wsref.TokenList(r.Proto)
	if len(r.Proto) > 1 {
		v.protoClean = false
	}
	exts, eclean := wsref.ParseExtensions(r.Ext)
	v.extClean = eclean
	for _, e := range exts {
		if e.Name == "permessage-deflate" {
			v.pmdOffered = true
		}
	}
	v.unspec = unspec
	switch {
	case len(v.faults) > 0:
		v.verdict = vViolation // invalid request
	case unspec:
		v.verdict = vUnspecified
	default:
		v.verdict = vValid
	}
	return v
}

func checkC12(c ServerHSCase, o *Obs) error {
	req, err := http.ReadRequest(bufio.NewReader(strings.NewReader(c.Req.raw())))
	if err != nil {
		o.Class("rejected_by_net_http")
		return nil
	}
	v := classifyHS(c)
	tr := xport.NewScriptConn(nil, nil)
	w := &fakeRW{conn: tr, brw: bufio.NewReadWriter(bufio.NewReaderSize(tr, 4096), bufio.NewWriterSize(tr, 4096))}
	u := websocket.Upgrader{ReadBufferSize: c.ReadBuf, WriteBufferSize: c.WriteBuf, EnableCompression: c.Compression}
	if !c.SubsNil {
		u.Subprotocols = c.Subs
		if u.Subprotocols == nil {
			u.Subprotocols = []string{}
		}
	}
	if c.Pool {
		u.WriteBufferPool = &simplePool{}
	}
	if c.HSTimeout {
		u.HandshakeTimeout = time.Hour
		tr.HonourWriteDeadline = true
	}
	switch c.CheckOrigin {
	case "allow":
		u.CheckOrigin = func(*http.Request) bool { return true }
	case "deny":
		u.CheckOrigin = func(*http.Request) bool { return false }
	}
	var rh http.Header
	appProto := ""
	if !c.RespNil {
		rh = http.Header{}
		for _, kv := range c.Resp {
			rh[kv.Name] = append(rh[kv.Name], string(kv.Val))
		}
		if vs := rh["Sec-Websocket-Protocol"]; len(vs) > 0 {
			appProto = vs[0]
		}
	}
	viaFunc := c.ViaFunc && c.CheckOrigin == "allow" && c.SubsNil && !c.Compression && !c.Pool
	var conn *websocket.Conn
	var uerr error
	var rw http.ResponseWriter = w
	if c.Wrapped {
		rw = &wrappedRW{inner: w}
		o.Class("response_writer_wrapped")
	}
	if c.WarmUp && !viaFunc {
		// an earlier handshake on this very Upgrader with different settings
		subs, comp := u.Subprotocols, u.EnableCompression
		u.Subprotocols, u.EnableCompression = []string{"warm", "chat", "superchat", "v2"}, !comp
		wtr := xport.NewScriptConn(nil, nil)
		wtr.NoLog = true
		wreq := upgradeRequest(true)
		wreq.Header["Sec-Websocket-Protocol"] = []string{"warm, chat"}
		// ... and with the very responseHeader map the application passes again
		// (a map it built once and reuses): nothing of the first negotiation may
		// stay behind in it
		before := fmt.Sprint(rh)
		if wc, werr := u.Upgrade(&fakeRW{conn: wtr, brw: bufio.NewReadWriter(bufio.NewReaderSize(wtr, 4096), bufio.NewWriterSize(wtr, 4096))}, wreq, rh); werr == nil {
			wc.Close()
		}
		if after := fmt.Sprint(rh); after != before {
			return fmt.Errorf("Upgrade changed the application's responseHeader map from %s to %s", before, after)
		}
		u.Subprotocols, u.EnableCompression = subs, comp
		o.Class("upgrader_reused_with_changed_settings")
	}
	if viaFunc {
		conn, uerr = websocket.Upgrade(rw, req, rh, c.ReadBuf, c.WriteBuf)
		o.Class("via_package_level_Upgrade")
	} else {
		conn, uerr = u.Upgrade(rw, req, rh)
	}
	if (conn == nil) == (uerr == nil) {
		return fmt.Errorf("Upgrade returned conn=%v err=%v", conn != nil, uerr)
	}
	if tr.Starved > 0 {
		return fmt.Errorf("Upgrade read from the client connection %d time(s) although the request had been received in full: with a client that waits for the 101 reply it never returns", tr.Starved)
	}

	switch v.verdict {
	case vViolation:
		o.Class("invalid_request")
		for _, f := range v.faults {
			o.Class("fault_" + f)
		}
		if len(v.faults) == 1 {
			o.NonTrivial("")
		}
		if conn != nil {
			return fmt.Errorf("Upgrade succeeded although the request is not a valid opening handshake (faults: %v)", v.faults)
		}
		var he websocket.HandshakeError
		if !errors.As(uerr, &he) {
			return fmt.Errorf("invalid handshake (faults %v): error %T %q is not a HandshakeError", v.faults, uerr, uerr)
		}
		if w.hijacked != 0 {
			return fmt.Errorf("invalid handshake (faults %v): the connection was hijacked", v.faults)
		}
		if viaFunc {
			// the deprecated function documents that the application replies
			if w.status != 0 && w.status < 400 {
				return fmt.Errorf("invalid handshake (faults %v): HTTP status %d written", v.faults, w.status)
			}
			if len(tr.Wrote) != 0 || tr.Closed != 0 {
				return fmt.Errorf("invalid handshake through the package-level Upgrade: %d bytes written to the raw connection, closed %d times", len(tr.Wrote), tr.Closed)
			}
			return nil
		}
		if w.status < 400 {
			return fmt.Errorf("invalid handshake (faults %v): HTTP status %d written, want an error status", v.faults, w.status)
		}
		if len(tr.Wrote) != 0 {
			return fmt.Errorf("invalid handshake: %d bytes were written to the raw connection", len(tr.Wrote))
		}
		if tr.Closed != 0 {
			return errors.New("invalid handshake: the connection was closed although it was never hijacked (it belongs to net/http)")
		}
		if v.unspec || appSuppliedExt(c) {
			// which status is owed is only stated for requests with exactly one
			// fault (and an application-supplied extension header is refused with
			// a status of its own, whatever else is wrong)
			return nil
		}
		if len(v.faults) == 1 && v.faults[0] == "origin" && w.status != 403 {
			return fmt.Errorf("origin not allowed: HTTP status %d, want 403", w.status)
		}
		// "426 with an Upgrade header when the Upgrade token is missing": the
		// clause is not conditioned on the rest of the request, so it is also
		// held against requests with further faults - except a Connection
		// header without the upgrade token, which makes the request something
		// other than an upgrade request (the statement's order of requirements).
		hasFault := func(f string) bool {
			for _, x := range v.faults {
				if x == f {
					return true
				}
			}
			return false
		}
		if hasFault("upgrade") && !hasFault("connection") {
			if len(v.faults) > 1 {
				o.Class("upgrade_token_missing_plus_other_faults")
			}
			ut, _ := wsref.TokenList(w.Header()["Upgrade"])
			if w.status != 426 || !wsref.HasToken(ut, "websocket") {
				return fmt.Errorf("Upgrade token missing: HTTP status %d with Upgrade header %q, want 426 with Upgrade: websocket", w.status, w.Header()["Upgrade"])
			}
		}
		return nil
	case vUnspecified:
		o.Class("unspecified_request")
		if conn == nil && w.hijacked != 0 && tr.Closed == 0 {
			return errors.New("Upgrade failed after hijacking without closing the connection")
		}
		if conn != nil && len(c.Req.Key) == 1 {
			// whether such a request is admitted is not stated; if it is, the 101
			// still has to prove that the server saw THIS key
			resp, perr := wsref.ParseResponseStrict(tr.Wrote)
			if perr != nil {
				return fmt.Errorf("101 response is not well-formed: %v; bytes: %q", perr, abbrevStr(tr.Wrote, 300))
			}
			sent := strings.Trim(c.Req.Key[0], " \t")
			if acc := resp.Get("Sec-WebSocket-Accept"); len(acc) != 1 || acc[0] != wsref.AcceptKey(sent) {
				return fmt.Errorf("request admitted with key %q, but Sec-WebSocket-Accept is %q, want the digest of the key as sent, %q", sent, acc, wsref.AcceptKey(sent))
			}
			o.Class("unspecified_admitted_accept_checked")
		}
		return nil
	}
	// ---- valid request
	o.Class("valid_request")
	if appSuppliedExt(c) && conn == nil {
		// refusing an application-supplied extension header is the library's
		// documented answer (HTTP 500); nothing may have been hijacked
		if w.hijacked != 0 && tr.Closed == 0 {
			return errors.New("Upgrade refused an application-supplied Sec-Websocket-Extensions header after hijacking, without closing the connection")
		}
		o.Class("app_supplied_extension_header_refused")
		return nil
	}
	if conn == nil {
		return fmt.Errorf("valid opening handshake refused: %v (HTTP %d)", uerr, w.status)
	}
	if w.hijacked != 1 {
		return fmt.Errorf("Hijack called %d times", w.hijacked)
	}
	resp, perr := wsref.ParseResponseStrict(tr.Wrote)
	if perr != nil {
		return fmt.Errorf("101 response is not well-formed (header injection?): %v; bytes: %q", perr, abbrevStr(tr.Wrote, 300))
	}
	if len(resp.Rest) != 0 {
		return fmt.Errorf("%d bytes follow the blank line of the 101 response: %q", len(resp.Rest), abbrevStr(resp.Rest, 100))
	}
	if resp.Proto != "HTTP/1.1" || resp.Code != 101 {
		return fmt.Errorf("status line %s %s", resp.Proto, resp.Status)
	}
	if ut, _ := wsref.TokenList(resp.Get("Upgrade")); !wsref.HasToken(ut, "websocket") {
		return fmt.Errorf("101 response Upgrade header %q", resp.Get("Upgrade"))
	}
	if ct, _ := wsref.TokenList(resp.Get("Connection")); !wsref.HasToken(ct, "upgrade") {
		return fmt.Errorf("101 response Connection header %q", resp.Get("Connection"))
	}
	acc := resp.Get("Sec-WebSocket-Accept")
	if len(acc) != 1 || acc[0] != wsref.AcceptKey(c.Req.Key[0]) {
		return fmt.Errorf("Sec-WebSocket-Accept %q, RFC 6455 digest of key %q is %q", acc, c.Req.Key[0], wsref.AcceptKey(c.Req.Key[0]))
	}
	// subprotocol
	sel := resp.Get("Sec-WebSocket-Protocol")
	wantNames := []string{"upgrade", "connection", "sec-websocket-accept"}
	if !c.SubsNil {
		if len(sel) > 1 {
			return fmt.Errorf("several subprotocol headers in the response: %q", sel)
		}
		if v.protoClean {
			inter := false
			for _, of := range v.offers {
				for _, s := range c.Subs {
					if of == s {
						inter = true
					}
				}
			}
			if len(sel) == 1 {
				okc, oks := false, false
				for _, of := range v.offers {
					okc = okc || of == sel[0]
				}
				for _, s := range c.Subs {
					oks = oks || s == sel[0]
				}
				if !okc || !oks {
					return fmt.Errorf("subprotocol %q selected; client offered %q, server supports %q", sel[0], v.offers, c.Subs)
				}
			} else if inter {
				return fmt.Errorf("no subprotocol selected although client offers %q and server supports %q", v.offers, c.Subs)
			}
		}
		if len(sel) == 1 && !v.protoClean {
			// an offer the statement does not classify (several lines, elements
			// that are not tokens): whatever is selected is at least one of the
			// comma-separated elements the client sent, and one the server supports
			offered, supported := false, false
			for _, line := range c.Req.Proto {
				for _, el := range strings.Split(line, ",") {
					offered = offered || strings.Trim(el, " \t") == sel[0]
				}
			}
			for _, s := range c.Subs {
				supported = supported || s == sel[0]
			}
			if !offered || !supported {
				return fmt.Errorf("subprotocol %q selected; the client's offer %q has no such element (server supports %q)", sel[0], c.Req.Proto, c.Subs)
			}
		}
		if len(sel) == 1 {
			wantNames = append(wantNames, "sec-websocket-protocol")
			if conn.Subprotocol() != sel[0] {
				return fmt.Errorf("Conn.Subprotocol() = %q, response says %q", conn.Subprotocol(), sel[0])
			}
		}
	} else if appProto != "" {
		wantNames = append(wantNames, "sec-websocket-protocol")
	}
	// compression announcement only if offered and enabled
	ann := resp.Get("Sec-WebSocket-Extensions")
	if len(ann) > 0 {
		wantNames = append(wantNames, "sec-websocket-extensions")
		if !c.Compression {
			return fmt.Errorf("permessage-deflate announced (%q) although the server did not enable compression", ann)
		}
		if v.extClean && !v.pmdOffered {
			return fmt.Errorf("permessage-deflate announced (%q) although the client did not offer it (offer: %q)", ann, c.Req.Ext)
		}
		lenient := false
		for _, n := range wsref.ExtNamesLenient(c.Req.Ext) {
			lenient = lenient || n == "permessage-deflate"
		}
		if !lenient {
			return fmt.Errorf("permessage-deflate announced (%q) although no extension of that name is offered - the name only occurs inside a quoted-string (offer: %q)", ann, c.Req.Ext)
		}
		if len(ann) > 1 {
			return fmt.Errorf("several extension headers in the response: %q", ann)
		}
	}
	if !c.RespNil {
		for _, kv := range c.Resp {
			if kv.Name == "Sec-Websocket-Protocol" || kv.Name == "Sec-Websocket-Extensions" {
				continue
			}
			wantNames = append(wantNames, strings.ToLower(kv.Name))
		}
	}
	var got []string
	for _, n := range resp.Names {
		got = append(got, strings.ToLower(n))
	}
	sort.Strings(got)
	sort.Strings(wantNames)
	if strings.Join(got, ",") != strings.Join(wantNames, ",") {
		return fmt.Errorf("101 response header names %v, want %v (protocol headers + application headers): a value injected or dropped a line; response %q", got, wantNames, abbrevStr(tr.Wrote, 400))
	}
	multi := len(c.Req.Conn) > 1 || len(c.Req.Upg) > 1 || strings.Contains(strings.Join(c.Req.Conn, ""), ",") || strings.Contains(strings.Join(c.Req.Upg, ""), ",")
	ctl := false
	for _, kv := range c.Resp {
		if bytes.ContainsAny(kv.Val, "\r\n\x00") {
			ctl = true
		}
	}
	o.ClassIf(multi, "valid_multi_token_or_lines")
	o.ClassIf(ctl, "resp_header_control_bytes")
	o.ClassIf(len(ann) > 0, "compression_announced")
	o.ClassIf(len(sel) > 0, "subprotocol_selected")
	if multi || ctl {
		o.NonTrivial("")
	}
	return nil
}

func appSuppliedExt(c ServerHSCase) bool {
	for _, kv := range c.Resp {
		if !c.RespNil && kv.Name == "Sec-Websocket-Extensions" {
			return true
		}
	}
	return false
}

func abbrevStr(b []byte, n int) string {
	if len(b) > n {
		return string(b[:n]) + "…"
	}
	return string(b)
}
