package props

import (
	"fmt"
	"os"
)

// raceLogGrew reports new data-race reports written by the race detector
// (GORACE=log_path=...) since the last call.
var raceLogSize int64

func raceLogGrew() (string, bool) {
	base := os.Getenv("VERIF_RACE_LOG")
	if base == "" {
		return "", false
	}
	p := fmt.Sprintf("%s.%d", base, os.Getpid())
	b, err := os.ReadFile(p)
	if err != nil || int64(len(b)) <= raceLogSize {
		return "", false
	}
	rep := string(b[raceLogSize:])
	raceLogSize = int64(len(b))
	if len(rep) > 3000 {
		rep = rep[:3000]
	}
	return rep, true
}
