package props

import (
	"bufio"
	"os"
	"strings"
	"sync"
)

// Known findings are listed in /verif/KNOWN_FINDINGS.txt (committed, never
// written at run time):
//
//	known: property=<id> sig=<signature> <what fails>
//	fixed: property=<id> <commit> <what failed>
//
// Only "known" lines matter at run time: a check steers its cases away from
// exactly the listed signature (counting how many it steered) and a probe
// re-confirms that the finding still reproduces.

type knownEntry struct{ Prop, Sig, Text string }

var (
	knownOnce sync.Once
	knownList []knownEntry
)

func knownFile() string {
	if p := os.Getenv("VERIF_KNOWN"); p != "" {
		return p
	}
	return "/verif/KNOWN_FINDINGS.txt"
}

func loadKnown() {
	f, err := os.Open(knownFile())
	if err != nil {
		return
	}
	defer f.Close()
	sc := bufio.NewScanner(f)
	for sc.Scan() {
		line := strings.TrimSpace(sc.Text())
		if !strings.HasPrefix(line, "known:") {
			continue
		}
		var e knownEntry
		rest := strings.Fields(strings.TrimPrefix(line, "known:"))
		var text []string
		for _, w := range rest {
			switch {
			case strings.HasPrefix(w, "property=") && e.Prop == "":
				e.Prop = strings.TrimPrefix(w, "property=")
			case strings.HasPrefix(w, "sig=") && e.Sig == "":
				e.Sig = strings.TrimPrefix(w, "sig=")
			default:
				text = append(text, w)
			}
		}
		e.Text = strings.Join(text, " ")
		if e.Prop != "" && e.Sig != "" {
			knownList = append(knownList, e)
		}
	}
}

// IsKnown reports whether the signature is listed as a known finding of prop.
func IsKnown(prop, sig string) bool {
	knownOnce.Do(loadKnown)
	for _, e := range knownList {
		if e.Prop == prop && e.Sig == sig {
			return true
		}
	}
	return false
}

// KnownEntries returns the listed known findings.
func KnownEntries() []knownEntry {
	knownOnce.Do(loadKnown)
	return knownList
}
